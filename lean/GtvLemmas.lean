/-
Machine-checked determinant / linear-algebra lemmas used by the GTV verification
of gaussian-toolbox.  Everything is over an arbitrary commutative ring; "S and L
are mutually inverse" is expressed by the two hypotheses `S * L = 1`, `L * S = 1`.
-/
import Mathlib.LinearAlgebra.Matrix.SchurComplement
import Mathlib.LinearAlgebra.Matrix.NonsingularInverse
import Mathlib.LinearAlgebra.Matrix.Determinant.Basic
import Mathlib.LinearAlgebra.Matrix.RowCol
import Mathlib.Data.List.Perm.Basic
import Mathlib.LinearAlgebra.Matrix.Block

open Matrix

namespace GtvLemmas

variable {α : Type*} [CommRing α]
variable {m n a c : Type*}
variable [Fintype m] [DecidableEq m] [Fintype n] [DecidableEq n]
variable [Fintype a] [DecidableEq a] [Fintype c] [DecidableEq c]

/-- 5. If `A * B = 1` then `det A * det B = 1`. -/
theorem det_inv_of_mul_eq_one (A B : Matrix n n α) (h : A * B = 1) :
    det A * det B = 1 := by
  rw [← det_mul, h, det_one]

/-- 6. Determinant of a diagonal matrix. -/
theorem det_diagonal' (d : n → α) : det (Matrix.diagonal d) = ∏ i, d i :=
  Matrix.det_diagonal

/-- 1. Matrix determinant lemma for a symmetric rank-one update. -/
theorem det_rank_one_update (L S : Matrix n n α) (hLS : L * S = 1) (_hSL : S * L = 1)
    (g : α) (v : n → α) :
    det (L + g • Matrix.vecMulVec v v) = det L * (1 + g * (v ⬝ᵥ (S *ᵥ v))) := by
  have key : L + g • Matrix.vecMulVec v v
      = L * (1 + Matrix.vecMulVec (g • (S *ᵥ v)) v) := by
    rw [Matrix.mul_add, Matrix.mul_one, Matrix.mul_vecMulVec, Matrix.mulVec_smul,
      Matrix.mulVec_mulVec, hLS, Matrix.one_mulVec, Matrix.smul_vecMulVec]
  rw [key, det_mul, Matrix.vecMulVec_eq Unit, det_one_add_replicateCol_mul_replicateRow,
    dotProduct_smul, smul_eq_mul]

/-- 2. Generalised matrix determinant lemma (marginal covariance of an affine map). -/
theorem det_add_mul_mul_transpose (S L : Matrix m m α) (hSL : S * L = 1) (_hLS : L * S = 1)
    (Sx Lx : Matrix n n α) (hSxLx : Sx * Lx = 1) (_hLxSx : Lx * Sx = 1) (M : Matrix m n α) :
    det (S + M * Sx * Mᵀ) = det S * det Sx * det (Lx + Mᵀ * L * M) := by
  have h1 : S + M * Sx * Mᵀ = S * (1 + (L * M) * (Sx * Mᵀ)) := by
    rw [Matrix.mul_add, Matrix.mul_one, ← Matrix.mul_assoc, ← Matrix.mul_assoc,
      ← Matrix.mul_assoc, hSL, Matrix.one_mul]
  have h2 : Sx * (Lx + Mᵀ * L * M) = 1 + (Sx * Mᵀ) * (L * M) := by
    rw [Matrix.mul_add, hSxLx]
    simp only [Matrix.mul_assoc]
  rw [h1, det_mul, det_one_add_mul_comm, ← h2, det_mul, mul_assoc]

/-- 3. Determinant of the joint covariance of `(x, y)`, `y = M x + noise`. -/
theorem det_joint_cov (Sx Lx : Matrix n n α) (hSxLx : Sx * Lx = 1) (hLxSx : Lx * Sx = 1)
    (S : Matrix m m α) (M : Matrix m n α) :
    det (Matrix.fromBlocks Sx (Sx * Mᵀ) (M * Sx) (S + M * Sx * Mᵀ)) = det Sx * det S := by
  let _ : Invertible Sx := ⟨Lx, hLxSx, hSxLx⟩
  have hinv : ⅟Sx = Lx := rfl
  rw [det_fromBlocks₁₁, hinv]
  have : S + M * Sx * Mᵀ - M * Sx * Lx * (Sx * Mᵀ) = S := by
    rw [Matrix.mul_assoc M Sx Lx, hSxLx, Matrix.mul_one, ← Matrix.mul_assoc, add_sub_cancel_right]
  rw [this]

/-- 4. Determinant of the joint precision of `(x, y)`. -/
theorem det_joint_prec (L S : Matrix m m α) (hLS : L * S = 1) (hSL : S * L = 1)
    (Lx : Matrix n n α) (M : Matrix m n α) :
    det (Matrix.fromBlocks (Lx + Mᵀ * L * M) (-(Mᵀ * L)) (-(L * M)) L) = det L * det Lx := by
  let _ : Invertible L := ⟨S, hSL, hLS⟩
  have hinv : ⅟L = S := rfl
  rw [det_fromBlocks₂₂, hinv]
  have : Lx + Mᵀ * L * M - -(Mᵀ * L) * S * -(L * M) = Lx := by
    rw [Matrix.neg_mul, Matrix.neg_mul, Matrix.mul_neg, neg_neg, Matrix.mul_assoc Mᵀ L S, hLS,
      Matrix.mul_one, ← Matrix.mul_assoc, add_sub_cancel_right]
  rw [this]

/-- Schur determinant, pivot on the (1,1) block, with the inverse given by hypotheses. -/
theorem det_fromBlocks11 (A Ai : Matrix m m α) (hA : A * Ai = 1) (hA' : Ai * A = 1)
    (B : Matrix m n α) (C : Matrix n m α) (D : Matrix n n α) :
    det (Matrix.fromBlocks A B C D) = det A * det (D - C * Ai * B) := by
  let _ : Invertible A := ⟨Ai, hA', hA⟩
  have hinv : ⅟A = Ai := rfl
  rw [det_fromBlocks₁₁, hinv]

/-- Schur determinant, pivot on the (2,2) block, with the inverse given by hypotheses. -/
theorem det_fromBlocks22 (A : Matrix m m α) (B : Matrix m n α) (C : Matrix n m α)
    (D Di : Matrix n n α) (hD : D * Di = 1) (hD' : Di * D = 1) :
    det (Matrix.fromBlocks A B C D) = det D * det (A - B * Di * C) := by
  let _ : Invertible D := ⟨Di, hD', hD⟩
  have hinv : ⅟D = Di := rfl
  rw [det_fromBlocks₂₂, hinv]

/-- alias used by the Python side -/
theorem det_diagonal (d : n → α) : det (Matrix.diagonal d) = ∏ i, d i :=
  Matrix.det_diagonal

/-- Heteroscedastic covariance with a square factor: `det (A (1 + D) Aᵀ) = det (A Aᵀ) * ∏ (1 + d i)`. -/
theorem det_gram_diag (A : Matrix n n α) (d : n → α) :
    det (A * Matrix.diagonal (fun i => 1 + d i) * Aᵀ) = det (A * Aᵀ) * ∏ i, (1 + d i) := by
  rw [det_mul, det_mul, det_mul, det_transpose, Matrix.det_diagonal]
  ring

/-- Cholesky: for lower-triangular `L`, `det (L Lᵀ) = (∏ L_ii)^2`, i.e. `ln det A = 2 Σ ln L_ii` for `A = L Lᵀ`. -/
theorem det_cholesky {k : Type*} [Fintype k] [DecidableEq k] [LinearOrder k]
    (L : Matrix k k α) (h : L.BlockTriangular ⇑OrderDual.toDual) :
    det (L * Lᵀ) = (∏ i, L i i) ^ 2 := by
  rw [det_mul, det_transpose, det_of_lowerTriangular L h]
  ring

/-- 7. Determinant of a principal sub-block of `Σ` in terms of the complementary
block of its inverse `Λ` (marginalisation: `det Σ_aa = det Σ * det Λ_cc`). -/
theorem det_principal_submatrix (Sg Lm : Matrix (a ⊕ c) (a ⊕ c) α)
    (hSL : Sg * Lm = 1) (_hLS : Lm * Sg = 1) :
    det Sg.toBlocks₁₁ = det Sg * det Lm.toBlocks₂₂ := by
  have hblk : Matrix.fromBlocks Sg.toBlocks₁₁ Sg.toBlocks₁₂ Sg.toBlocks₂₁ Sg.toBlocks₂₂ *
      Matrix.fromBlocks Lm.toBlocks₁₁ Lm.toBlocks₁₂ Lm.toBlocks₂₁ Lm.toBlocks₂₂
      = Matrix.fromBlocks 1 0 0 1 := by
    rw [Matrix.fromBlocks_toBlocks, Matrix.fromBlocks_toBlocks, hSL, Matrix.fromBlocks_one]
  rw [Matrix.fromBlocks_multiply, Matrix.fromBlocks_inj] at hblk
  obtain ⟨_, h12, _, h22⟩ := hblk
  have hprod : Sg * Matrix.fromBlocks 1 Lm.toBlocks₁₂ 0 Lm.toBlocks₂₂
      = Matrix.fromBlocks Sg.toBlocks₁₁ 0 Sg.toBlocks₂₁ 1 := by
    conv_lhs => rw [← Matrix.fromBlocks_toBlocks Sg]
    rw [Matrix.fromBlocks_multiply, h12, h22]
    simp
  have := congrArg det hprod
  rw [det_mul, det_fromBlocks_zero₂₁, det_fromBlocks_zero₁₂, det_one, det_one, one_mul,
    mul_one] at this
  exact this.symm

/-- 7'. Same after reindexing an arbitrary index type as `a ⊕ c`. -/
theorem det_principal_submatrix_reindex (e : n ≃ a ⊕ c) (Sg Lm : Matrix n n α)
    (hSL : Sg * Lm = 1) (hLS : Lm * Sg = 1) :
    det (Sg.submatrix e.symm e.symm).toBlocks₁₁
      = det Sg * det (Lm.submatrix e.symm e.symm).toBlocks₂₂ := by
  have h1 : Sg.submatrix e.symm e.symm * Lm.submatrix e.symm e.symm = 1 := by
    rw [Matrix.submatrix_mul_equiv, hSL, Matrix.submatrix_one_equiv]
  have h2 : Lm.submatrix e.symm e.symm * Sg.submatrix e.symm e.symm = 1 := by
    rw [Matrix.submatrix_mul_equiv, hLS, Matrix.submatrix_one_equiv]
  rw [det_principal_submatrix _ _ h1 h2, Matrix.det_submatrix_equiv_self]

/-- 8. A right-commutative fold does not depend on the order of the list. -/
theorem foldl_perm_of_right_comm {β γ : Type*} (f : β → γ → β)
    (hf : ∀ b x y, f (f b x) y = f (f b y) x) {l₁ l₂ : List γ} (p : l₁.Perm l₂) (b : β) :
    l₁.foldl f b = l₂.foldl f b :=
  p.foldl_eq' (fun x _ y _ z => hf z x y) b

/-- The natural-parameter (information-form) Bayesian update
`(Λ, ν, c) ↦ (Λ + Λᵢ, ν + νᵢ, c + cᵢ)`. -/
def natUpdate {A B C : Type*} [Add A] [Add B] [Add C] (s t : A × B × C) : A × B × C :=
  (s.1 + t.1, s.2.1 + t.2.1, s.2.2 + t.2.2)

/-- 8'. The natural-parameter update is right-commutative. -/
theorem natural_param_update_comm {A B C : Type*}
    [AddCommMonoid A] [AddCommMonoid B] [AddCommMonoid C] (p x y : A × B × C) :
    natUpdate (natUpdate p x) y = natUpdate (natUpdate p y) x := by
  simp only [natUpdate, Prod.mk.injEq]
  exact ⟨add_right_comm _ _ _, add_right_comm _ _ _, add_right_comm _ _ _⟩

/-- 8''. Hence Bayesian updates applied in any order give the same natural parameters. -/
theorem natural_param_foldl_perm {A B C : Type*}
    [AddCommMonoid A] [AddCommMonoid B] [AddCommMonoid C]
    {l₁ l₂ : List (A × B × C)} (p : l₁.Perm l₂) (b : A × B × C) :
    l₁.foldl natUpdate b = l₂.foldl natUpdate b :=
  foldl_perm_of_right_comm natUpdate natural_param_update_comm p b

/-- 9. For square invertible `A` with inverse `B`: `Aᵀ (A Aᵀ)⁻¹ A = 1`, where
`(A Aᵀ)⁻¹ = Bᵀ B`. -/
theorem transpose_mul_inv_gram_mul (A B : Matrix n n α) (_hAB : A * B = 1) (hBA : B * A = 1) :
    Aᵀ * (Bᵀ * B) * A = 1 := by
  have h : Aᵀ * Bᵀ = 1 := by rw [← Matrix.transpose_mul, hBA, Matrix.transpose_one]
  rw [← Matrix.mul_assoc, h, Matrix.one_mul, hBA]

/-- 10. Inverse of a 2×2 block matrix, pivot on the (1,1) block, inverses given by hypotheses (Schur complement). -/
theorem inv_fromBlocks11 (A Ai : Matrix m m α) (hA : A * Ai = 1) (hA' : Ai * A = 1)
    (B : Matrix m n α) (C : Matrix n m α) (D Si : Matrix n n α)
    (hS : (D - C * Ai * B) * Si = 1) (hS' : Si * (D - C * Ai * B) = 1) :
    Matrix.fromBlocks A B C D *
      Matrix.fromBlocks (Ai + Ai * B * Si * C * Ai) (-(Ai * B * Si)) (-(Si * C * Ai)) Si = 1 := by
  let iA : Invertible A := ⟨Ai, hA', hA⟩
  have hinv : ⅟A = Ai := rfl
  let iS : Invertible (D - C * ⅟A * B) := ⟨Si, by rw [hinv]; exact hS', by rw [hinv]; exact hS⟩
  have hinvS : ⅟(D - C * ⅟A * B) = Si := rfl
  let iF := fromBlocks₁₁Invertible A B C D
  have h := invOf_fromBlocks₁₁_eq A B C D
  rw [hinvS, hinv] at h
  rw [← h]
  exact mul_invOf_self _

/-- 11. Inverse of a 2×2 block matrix, pivot on the (2,2) block. -/
theorem inv_fromBlocks22 (A : Matrix m m α) (B : Matrix m n α) (C : Matrix n m α)
    (D Di : Matrix n n α) (hD : D * Di = 1) (hD' : Di * D = 1) (Si : Matrix m m α)
    (hS : (A - B * Di * C) * Si = 1) (hS' : Si * (A - B * Di * C) = 1) :
    Matrix.fromBlocks A B C D *
      Matrix.fromBlocks Si (-(Si * B * Di)) (-(Di * C * Si)) (Di + Di * C * Si * B * Di) = 1 := by
  let iD : Invertible D := ⟨Di, hD', hD⟩
  have hinv : ⅟D = Di := rfl
  let iS : Invertible (A - B * ⅟D * C) := ⟨Si, by rw [hinv]; exact hS', by rw [hinv]; exact hS⟩
  have hinvS : ⅟(A - B * ⅟D * C) = Si := rfl
  let iF := fromBlocks₂₂Invertible A B C D
  have h := invOf_fromBlocks₂₂_eq A B C D
  rw [hinvS, hinv] at h
  rw [← h]
  exact mul_invOf_self _

/-- 12. The Schur complement of a symmetric block matrix with respect to a symmetric pivot is symmetric. -/
theorem schur_symm (Ai : Matrix m m α) (hAi : Aiᵀ = Ai) (B : Matrix m n α) (D : Matrix n n α) (hD : Dᵀ = D) :
    (D - Bᵀ * Ai * B)ᵀ = D - Bᵀ * Ai * B := by
  rw [Matrix.transpose_sub, Matrix.transpose_mul, Matrix.transpose_mul, Matrix.transpose_transpose, hAi, hD,
    Matrix.mul_assoc]

end GtvLemmas

#print axioms GtvLemmas.det_rank_one_update
#print axioms GtvLemmas.det_add_mul_mul_transpose
#print axioms GtvLemmas.det_joint_cov
#print axioms GtvLemmas.det_joint_prec
#print axioms GtvLemmas.det_principal_submatrix_reindex
#print axioms GtvLemmas.natural_param_foldl_perm
#print axioms GtvLemmas.transpose_mul_inv_gram_mul
#print axioms GtvLemmas.inv_fromBlocks11
#print axioms GtvLemmas.inv_fromBlocks22
#print axioms GtvLemmas.schur_symm
