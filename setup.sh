#!/bin/bash
# offline setup: nothing to build -- the checks use /venv/bin/python (repo deps) and only the standard library otherwise
set -e
cd "$(dirname "$0")"
/venv/bin/python -c "import jax, numpy; print('jax', jax.__version__, 'numpy', numpy.__version__)"
mkdir -p evidence replays .cache
/venv/bin/python -c "import sys; sys.path.insert(0,'.'); from gtv import leancheck; r=leancheck.status(); print('lean lemma library:', 'ok' if r['ok'] else 'FAILED', r['wall_s'], 's'); sys.exit(0 if r['ok'] else 1)"
echo setup ok
