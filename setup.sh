#!/bin/bash
# offline setup: nothing to build -- the checks use /venv/bin/python (repo deps) and only the standard library otherwise
set -e
cd "$(dirname "$0")"
/venv/bin/python -c "import jax, numpy; print('jax', jax.__version__, 'numpy', numpy.__version__)"
mkdir -p evidence replays
echo setup ok
