import argparse
import os
import sys


def main():
    ap = argparse.ArgumentParser()
    ap.add_argument("prop")
    ap.add_argument("--tier", default=os.environ.get("VERIF_TIER", "quick"))
    ap.add_argument("--replay")
    ap.add_argument("--only")
    ap.add_argument("--jobs", type=int)
    a = ap.parse_args()
    seed = int(os.environ.get("VERIF_SEED", "0") or 0)
    sys.setrecursionlimit(20000)
    from . import runner
    if a.replay:
        from . import replay
        sys.exit(replay.run(a.prop, a.replay))
    sys.exit(runner.check_property(a.prop, tier=a.tier, seed=seed, jobs=a.jobs, only=a.only))


if __name__ == "__main__":
    main()
