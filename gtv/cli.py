import argparse
import os
import sys


def main():
    ap = argparse.ArgumentParser()
    ap.add_argument("prop")
    ap.add_argument("--tier", default=os.environ.get("VERIF_TIER", "quick"))
    ap.add_argument("--replay")
    ap.add_argument("--only")
    ap.add_argument("--jobs", type=int)
    ap.add_argument("--ids-file", help="run only the obligations whose ids are listed in this file (one per line); no evidence is written")
    a = ap.parse_args()
    seed = int(os.environ.get("VERIF_SEED", "0") or 0)
    sys.setrecursionlimit(20000)
    from . import runner
    if a.replay:
        from . import replay
        sys.exit(replay.run(a.prop, a.replay))
    only = a.only
    if a.ids_file:
        with open(a.ids_file) as fh:
            only = set(ln.strip() for ln in fh if ln.strip())
    sys.exit(runner.check_property(a.prop, tier=a.tier, seed=seed, jobs=a.jobs, only=only))


if __name__ == "__main__":
    main()
