"""Python-side instances of the Lean-checked lemma library (lean/GtvLemmas.lean).  Each function builds BOTH the
matrix and its log-determinant value from abstract quantities and registers LogDet[matrix] := value.  The kernel
later checks that the matrix the code produced has the same canonical form as the lemma's matrix, so a hint can
make a proof succeed but cannot make a false statement pass (DESIGN §3.4)."""


def rank_one_update(w, L, S, ldL, g, v, outer):
    """GtvLemmas.det_rank_one_update:  L invertible with inverse S, ldL = ln det L, 1 + g v'Sv > 0:
         ln det(L + g v v') = ldL + ln(1 + g v' S v)
    outer=True : L,S [R1,D,D], ldL [R1]; g [R2], v [R2,D]  -> batch [R1,R2]
    outer=False: all batches aligned / broadcast [R]"""
    xp = w.xp
    if outer:
        vv = xp.einsum("b,bi,bj->bij", g, v, v)
        M = L[:, None] + vv[None]
        vSv = xp.einsum("bi,aij,bj->ab", v, S, v)
        val = ldL[:, None] + xp.log(1.0 + g[None] * vSv)
    else:
        M = L + xp.einsum("a,ai,aj->aij", g, v, v)
        vSv = xp.einsum("ai,aij,aj->a", v, S, v)
        val = ldL + xp.log(1.0 + g * vSv)
    w.ld_rule(M, val, "GtvLemmas.det_rank_one_update")
    return M, val


def tiled(w, L, ldL, R2size):
    """LogDet of a matrix that does not depend on a batch index is the same for every value of that index
    (function property of det): matrix L[:,None] tiled over a second batch axis"""
    xp = w.xp
    M = L[:, None] + 0.0 * xp.zeros((1, R2size, 1, 1))
    val = ldL[:, None] + 0.0 * xp.zeros((1, R2size))
    w.ld_rule(M, val, "function property of det (tiling)")
    return M, val


def sylvester(w, S, ldS, Sx, ldSx, M, LxMLM):
    """GtvLemmas.det_add_mul_mul_transpose (Sylvester / matrix determinant lemma, generalised):
    S, Sx invertible with inverses L, Lx:
        ln det(S + M Sx M') = ldS + ldSx + ln det(Lx + M' L M)
    batches explicit: S [A,Dy,Dy], ldS [A]; Sx [B,Dx,Dx], ldSx [B]; M [A,Dy,Dx] or None (identity);
    LxMLM [A,B,Dx,Dx] = Lx + M' L M (built by the caller from the same quantities)"""
    xp = w.xp
    if M is None:
        Sy = S[:, None] + Sx[None]
    else:
        Sy = S[:, None] + xp.einsum("aij,bjk,alk->abil", M, Sx, M)
    if w.symbolic:
        from . import matrices as MX
        try:
            MX._matrix_axes(Sy.fresh_copy())
        except MX.ScalarMatrix:
            # Dy = 1: the left-hand side is the logarithm of a scalar; the same lemma, read from right to left, gives
            # the log-determinant of the Dx x Dx matrix:  ln det(Lx + M' L M) = ln(S + M Sx M') - ldS - ldSx
            val = xp.log(Sy[..., 0, 0]) - ldS[:, None] - ldSx[None]
            w.ld_rule(LxMLM, val, "GtvLemmas.det_add_mul_mul_transpose")
            return Sy, xp.log(Sy[..., 0, 0])
        except MX.BlockMatrix:
            pass
    val = ldS[:, None] + ldSx[None] + w.logdet(LxMLM)
    w.ld_rule(Sy, val, "GtvLemmas.det_add_mul_mul_transpose")
    return Sy, val


def principal_submatrix_logdet(w, S_sub, ldS, L_comp):
    """GtvLemmas.det_principal_submatrix:  Σ symmetric invertible with inverse Λ, index set split a ⊎ c:
           ln det Σ[a,a] = ln det Σ + ln det Λ[c,c]
    S_sub = Σ[a,a] [R,Da,Da]; ldS [R]; L_comp = Λ[c,c] [R,Dc,Dc]"""
    val = ldS + w.logdet(L_comp)
    w.ld_rule(S_sub, val, "GtvLemmas.det_principal_submatrix")
    return val
