"""Specification layer (DESIGN §4.1): abstract views and spec functions, independent of the implementation's
formulas, written once against the array namespace of the world (symbolic shim or real jax.numpy)."""
from . import extract as X


def mods():
    return X.load()


# ------------------------------------------------------------------ views
def lnf(w, Lambda, nu, ln_beta, x):
    """[R, N] log of the function a factor / measure IS: -1/2 x'Λx + ν'x + lnβ"""
    xp = w.xp
    return (-0.5 * xp.einsum("ni,rij,nj->rn", x, Lambda, x) + xp.einsum("ri,ni->rn", nu, x) + ln_beta[:, None])


def lnf_obj(w, f, x):
    return lnf(w, f.Lambda, f.nu, f.ln_beta, x)


def lnN(w, y, mean, Lam, ldS, D):
    """ln N(y; mean, Sigma) with batch-broadcast arguments: y,mean [..., D]; Lam [..., D, D]; ldS [...]; D size"""
    xp = w.xp
    r = y - mean
    quad = xp.einsum("...i,...ij,...j->...", r, Lam, r) if not w.symbolic else None
    raise NotImplementedError


def lnmass(w, Lambda_inv, nu, ln_beta, ld_Lambda, D):
    """ln ∫ exp(-1/2 x'Λx + ν'x + lnβ) dx  (axiom G1):  1/2 ν'Λ⁻¹ν + D/2 ln 2π − 1/2 ln det Λ + lnβ"""
    xp = w.xp
    return 0.5 * xp.einsum("ri,rij,rj->r", nu, Lambda_inv, nu) + 0.5 * D * w.log2pi() - 0.5 * ld_Lambda + ln_beta


# ------------------------------------------------------------------ well-formed generators (DESIGN §3.2)
def batch(R):
    return [R] if R != 1 else [1]


def gen_pdf(w, tag, R, D, ctor="Sigma+Lambda+ld", diag=False):
    """GaussianPDF through the REAL constructor on well-formed generator arguments; returns (pdf, params)"""
    P = mods()["pdf"]
    if tag in getattr(w, "diag_tags", ()):
        # configuration option: this density is handed over as a GaussianDiagPDF (a diagonal-covariance instance of the
        # same mathematical object; the callee must not care which class its argument has)
        diag = True
        w.diag_applied = True
    g = w.diag_spd(tag, batch(R), D) if diag else w.spd(tag, batch(R), D)
    mu = w.arr(f"m{tag}", *batch(R), D)
    cls = P.GaussianDiagPDF if diag else P.GaussianPDF
    if ctor == "Sigma":
        p = cls(Sigma=g["S"], mu=mu)
    elif ctor == "Sigma+Lambda":
        p = cls(Sigma=g["S"], mu=mu, Lambda=g["L"])
    else:
        p = cls(Sigma=g["S"], mu=mu, Lambda=g["L"], ln_det_Sigma=g["ld"])
    return p, dict(S=g["S"], L=g["L"], ld=g["ld"], mu=mu)


def gen_cond(w, tag, R, Dy, Dx, kind="full", ctor="Sigma+Lambda+ld", zeroM=False):
    """linear-Gaussian conditional through the REAL constructor; kinds: full, diag, identity, identity-diag"""
    C = mods()["conditional"]
    diag = kind in ("diag", "identity-diag")
    g = w.diag_spd(tag, batch(R), Dy) if diag else w.spd(tag, batch(R), Dy)
    if kind in ("full", "diag"):
        M = w.arr(f"M{tag}", *batch(R), Dy, Dx)
        if zeroM:
            M = 0.0 * M
        b = w.arr(f"b{tag}", *batch(R), Dy)
        cls = C.ConditionalGaussianPDF if kind == "full" else C.ConditionalGaussianDiagPDF
        kw = dict(M=M, b=b)
    else:
        cls = C.ConditionalIdentityGaussianPDF if kind == "identity" else C.ConditionalIdentityDiagGaussianPDF
        M = b = None
        kw = {}
    if ctor == "Sigma":
        c = cls(Sigma=g["S"], **kw)
    elif ctor == "Lambda":
        c = cls(Lambda=g["L"], **kw)
    else:
        c = cls(Sigma=g["S"], Lambda=g["L"], ln_det_Sigma=g["ld"], **kw)
    return c, dict(S=g["S"], L=g["L"], ld=g["ld"], M=M, b=b)


def gen_factored_joint(w, tag, R, Dy, Dx):
    """an arbitrary Gaussian q over (y, x), y first, written in its conditional factorisation q(x) q(y|x):
         x ~ N(mx, Sx),  y | x ~ N(G x + g, Sq)    (every Gaussian over (y,x) has exactly one such form:
         G = S_yx S_xx^-1, Sq = S_yy - S_yx S_xx^-1 S_xy; a reparametrisation of the generator, not a restriction)
    returns the block arrays mu, S, L, ld (ld = ln det Sx + ln det Sq: GtvLemmas.det_fromBlocks22) and the factors"""
    xp = w.xp
    gx, gq = w.spd(tag + "x", batch(R), Dx), w.spd(tag + "q", batch(R), Dy)
    G, g0, mx = w.arr("G" + tag, *batch(R), Dy, Dx), w.arr("g" + tag, *batch(R), Dy), w.arr("m" + tag, *batch(R), Dx)
    GS = xp.einsum("rij,rjk->rik", G, gx["S"])
    LG = xp.einsum("rij,rjk->rik", gq["L"], G)
    Sg = xp.concatenate([xp.concatenate([gq["S"] + xp.einsum("rik,rjk->rij", GS, G), GS], axis=2),
                         xp.concatenate([xp.swapaxes(GS, 1, 2), gx["S"]], axis=2)], axis=1)
    L = xp.concatenate([xp.concatenate([gq["L"], -LG], axis=2),
                        xp.concatenate([-xp.swapaxes(LG, 1, 2), gx["L"] + xp.einsum("rji,rjk->rik", G, LG)], axis=2)], axis=1)
    mu = xp.concatenate([xp.einsum("rij,rj->ri", G, mx) + g0, mx], axis=1)
    return dict(mu=mu, S=Sg, L=L, ld=gx["ld"] + gq["ld"], G=G, g=g0, Sq=gq["S"], Lq=gq["L"],
                px=dict(mu=mx, S=gx["S"], L=gx["L"], ld=gx["ld"]))


def cond_mean(w, par, x, R):
    """[R?, N, Dy] spec mean M x + b; identity kinds: x"""
    xp = w.xp
    if par["M"] is None:
        return x[None]
    return xp.einsum("rij,nj->rni", par["M"], x) + par["b"][:, None]


# ------------------------------------------------------------------ Isserlis / Wick (axiom G2), combinatorial
def _matchings(items):
    if not items:
        yield []
        return
    a = items[0]
    for k in range(1, len(items)):
        b = items[k]
        rest = items[1:k] + items[k + 1:]
        for m in _matchings(rest):
            yield [(a, b)] + m


def wick(w, mu, Sigma, forms, letters, out, D):
    """E[ prod_t (A_t x + a_t)[letters[t]] ] for x ~ N(mu, Sigma), summed over letters not in `out`.
    forms: list of (A, a) with A [R?, K, D] (3-D) or None (identity), a [R?, K] or None (zero).
    mu [R, D], Sigma [R, D, D].  Returns [R, *out].  Generated from subsets x perfect matchings (Isserlis),
    NOT from the implementation's algebraic shortcut."""
    xp = w.xp
    n = len(forms)
    eye = xp.eye(w.size(D))[None]
    A3 = [eye if A is None else A for (A, a) in forms]
    means = []
    for (A, a), A_ in zip(forms, A3):
        m = xp.einsum("rkd,rd->rk", A_, mu)
        if a is not None:
            m = m + a
        means.append(m)
    total = None
    idx = list(range(n))
    import itertools
    for size in range(0, n + 1, 2):
        for S_ in itertools.combinations(idx, size):
            rest = [t for t in idx if t not in S_]
            for match in _matchings(list(S_)):
                ops, subs = [], []
                for t in rest:
                    ops.append(means[t])
                    subs.append("r" + letters[t])
                for (s, t) in match:
                    ops.append(xp.einsum("rkd,rde,rle->rkl", A3[s], Sigma, A3[t]))
                    subs.append("r" + letters[s] + letters[t])
                term = xp.einsum(",".join(subs) + "->r" + out, *ops)
                total = term if total is None else total + term
    return total


# ------------------------------------------------------------------ conditional handles (all five linear kinds)
COND_KINDS = ["full", "diag", "identity", "identity-diag", "nn"]
COND_CLS = {"full": "ConditionalGaussianPDF", "diag": "ConditionalGaussianDiagPDF", "identity": "ConditionalIdentityGaussianPDF",
            "identity-diag": "ConditionalIdentityDiagGaussianPDF", "nn": "NNControlGaussianConditional"}


class CondHandle:
    """a linear-Gaussian conditional built through its REAL constructor + its abstract parameters (M, b, S, L, ld)"""

    def __init__(self, w, kind, obj, par, u=None):
        self.w, self.kind, self.obj, self.par, self.u = w, kind, obj, par, u

    def call(self, name, *args, **kw):
        if self.kind == "nn":
            return getattr(self.obj, name)(*args, u=self.u, **kw)
        return getattr(self.obj, name)(*args, **kw)

    @property
    def identity(self):
        return self.par["M"] is None


def gen_cond_handle(w, kind, tag, R, Dy, Dx, ctor="Sigma+Lambda+ld", zeroM=False):
    if kind != "nn":
        c, par = gen_cond(w, tag, R, Dy, Dx, kind, ctor, zeroM=zeroM)
        return CondHandle(w, kind, c, par)
    C = mods()["conditional"]
    g = w.spd(tag, [1], Dy)
    B = batch(R)
    Mu = w.arr(f"M{tag}", *B, Dy, Dx)
    bu = w.arr(f"b{tag}", *B, Dy)
    u = w.arr(f"u{tag}", *B, "Du")
    xp = w.xp
    dy, dx = w.size(Dy), w.size(Dx)

    def control_func(uin):
        # M(u), b(u) are uninterpreted functions of the rows of u: atoms indexed by the batch of u
        if uin is u or (not w.symbolic and tuple(uin.shape) == tuple(u.shape)):
            # (numeric world: also for a traced copy of u under jax.jit)
            Mflat = xp.reshape(Mu, (Mu.shape[0], dy * dx))
            return xp.concatenate([Mflat, bu], axis=1)
        return xp.zeros((uin.shape[0], dy * dx + dy))
    obj = C.NNControlGaussianConditional(Sigma=g["S"], num_cond_dim=dx, num_control_dim=w.size("Du"), control_func=control_func)
    # abstract parameters with the batch of u
    if R == 1:
        par = dict(S=g["S"], L=g["L"], ld=g["ld"], M=Mu, b=bu)
    else:
        r = w.size(R)
        par = dict(S=xp.tile(g["S"], (r, 1, 1)), L=xp.tile(g["L"], (r, 1, 1)), ld=xp.tile(g["ld"], (r,)), M=Mu, b=bu)
    return CondHandle(w, kind, obj, par, u=u)
