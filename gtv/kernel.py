"""GTV kernel: tensor-index polynomial normal form with symbolic dimensions (DESIGN §2.3).

Expressions (immutable tuples):
    ("num", Fraction) ("dim", sort) ("atom", name, idx) ("delta", i, j)
    ("add", es) ("mul", es) ("sum", IV, e) ("pow", e, n) ("fn", name, e)
Index terms: IV (variable of a sort), IC (concrete constant), ("app", name, args) (index-map application).

normalize(expr, ctx) -> canonical polynomial {monomial: Fraction}; two expressions are equal for ALL sizes of
all sorts and all values of all atoms (subject to the registered relations) if their normal forms coincide.
The converse holds for the pure polynomial fragment; with Inv / function atoms the procedure is sound and
incomplete.
"""
from fractions import Fraction
import itertools

_ctr = itertools.count()


class KernelError(Exception):
    pass


def declare_partition(ctx, sort, parts):
    """parts: [(map name, part sort), ...]  -- a bijection  sort ~ disjoint union of the part sorts"""
    ctx.partitions[sort] = list(parts)
    for n, (name, ps) in enumerate(parts):
        ctx.part_of[name] = (sort, n)


class IV:
    """index variable of a sort"""
    __slots__ = ("id", "sort")

    def __init__(self, sort):
        self.id = next(_ctr)
        self.sort = sort

    def __repr__(self):
        # zero-padded: several canonical choices order index variables by repr; with plain decimal ids "D1000" < "D999" and a
        # choice could flip when the counter crosses a power of ten (observed once as a spurious LD0 / LD2 mismatch)
        return f"{self.sort}{self.id:07d}"


class IC:
    """concrete index constant (used on Concrete axes)"""
    __slots__ = ("k",)

    def __init__(self, k):
        self.k = k

    def __repr__(self):
        return f"#{self.k}"

    def __eq__(self, o):
        return isinstance(o, IC) and o.k == self.k

    def __hash__(self):
        return hash(("IC", self.k))


def app(name, *args):
    return ("app", name, tuple(args))


def is_app(i):
    return isinstance(i, tuple) and len(i) == 3 and i[0] == "app"


def num(x):
    return ("num", Fraction(x))


def atom(name, *idx):
    return ("atom", name, tuple(idx))


def delta(i, j):
    return ("delta", i, j)


def add(*es):
    return ("add", tuple(es))


def mul(*es):
    return ("mul", tuple(es))


def neg(e):
    return ("mul", (("num", Fraction(-1)), e))


def sub(a, b):
    return ("add", (a, neg(b)))


def ssum(iv, e):
    return ("sum", iv, e)


def powr(e, n):
    return ("pow", e, n)


def fn(name, e):
    return ("fn", name, e)


def dim(sort):
    return ("dim", sort)


ZERO = num(0)
ONE = num(1)


# ------------------------------------------------------------------ index terms
def isub(i, m):
    """substitute IVs inside an index term"""
    if isinstance(i, IV):
        return m.get(i, i)
    if is_app(i):
        return ("app", i[1], tuple(isub(a, m) for a in i[2]))
    return i


def ivs_in(i):
    if isinstance(i, IV):
        yield i
    elif is_app(i):
        for a in i[2]:
            yield from ivs_in(a)


def subst(e, m):
    if not m:
        return e
    k = e[0]
    if k in ("num", "dim"):
        return e
    if k == "atom":
        return ("atom", e[1], tuple(isub(i, m) for i in e[2]))
    if k == "fatom":
        return ("fatom", e[1], e[2], tuple(isub(i, m) for i in e[3]), e[4])
    if k == "delta":
        return ("delta", isub(e[1], m), isub(e[2], m))
    if k in ("add", "mul"):
        return (k, tuple(subst(x, m) for x in e[1]))
    if k == "sum":
        if e[1] in m:
            raise KernelError("substitution captures a bound variable")
        return ("sum", e[1], subst(e[2], m))
    if k == "pow":
        return ("pow", subst(e[1], m), e[2])
    if k == "fn":
        return ("fn", e[1], subst(e[2], m))
    raise KernelError(f"bad expr {k}")


def free_ivs(e, bound=frozenset(), out=None):
    """free index variables of an expression (ordered, unique)"""
    if out is None:
        out = []
    k = e[0]
    if k == "atom":
        for i in e[2]:
            for v in ivs_in(i):
                if v not in bound and v not in out:
                    out.append(v)
    elif k == "delta":
        for i in (e[1], e[2]):
            for v in ivs_in(i):
                if v not in bound and v not in out:
                    out.append(v)
    elif k == "fatom":
        for i in e[3]:
            for v in ivs_in(i):
                if v not in bound and v not in out:
                    out.append(v)
    elif k in ("add", "mul"):
        for x in e[1]:
            free_ivs(x, bound, out)
    elif k == "sum":
        free_ivs(e[2], bound | {e[1]}, out)
    elif k == "pow":
        free_ivs(e[1], bound, out)
    elif k == "fn":
        free_ivs(e[2], bound, out)
    return out


def rename_bound(e):
    """alpha-rename every bound variable of e (fresh copy)"""
    k = e[0]
    if k in ("num", "dim", "atom", "delta", "fatom"):
        return e
    if k in ("add", "mul"):
        return (k, tuple(rename_bound(x) for x in e[1]))
    if k == "sum":
        v = IV(e[1].sort)
        return ("sum", v, subst(rename_bound(e[2]), {e[1]: v}))
    if k == "pow":
        return ("pow", rename_bound(e[1]), e[2])
    if k == "fn":
        return ("fn", e[1], rename_bound(e[2]))
    raise KernelError(k)


def rewrite_atoms(e, fnmap):
    """replace atoms by name: fnmap[name](idx) -> expr"""
    k = e[0]
    if k == "atom":
        if e[1] in fnmap:
            return fnmap[e[1]](e[2])
        return e
    if k in ("num", "dim", "delta", "fatom"):
        return e
    if k in ("add", "mul"):
        return (k, tuple(rewrite_atoms(x, fnmap) for x in e[1]))
    if k == "sum":
        return ("sum", e[1], rewrite_atoms(e[2], fnmap))
    if k == "pow":
        return ("pow", rewrite_atoms(e[1], fnmap), e[2])
    if k == "fn":
        return ("fn", e[1], rewrite_atoms(e[2], fnmap))
    raise KernelError(k)


def map_indices(e, fn):
    """apply fn to every top-level index term of every atom / delta / fatom (fn recurses itself if it wants to)"""
    k = e[0]
    if k == "atom":
        return ("atom", e[1], tuple(fn(i) for i in e[2]))
    if k == "delta":
        return ("delta", fn(e[1]), fn(e[2]))
    if k == "fatom":
        return ("fatom", e[1], e[2], tuple(fn(i) for i in e[3]), e[4])
    if k in ("num", "dim"):
        return e
    if k in ("add", "mul"):
        return (k, tuple(map_indices(x, fn) for x in e[1]))
    if k == "sum":
        return ("sum", e[1], map_indices(e[2], fn))
    if k == "pow":
        return ("pow", map_indices(e[1], fn), e[2])
    if k == "fn":
        return ("fn", e[1], map_indices(e[2], fn))
    raise KernelError(k)


def index_terms(e, out=None):
    """all top-level index terms of an expression"""
    if out is None:
        out = []
    k = e[0]
    if k == "atom":
        out.extend(e[2])
    elif k == "delta":
        out.extend((e[1], e[2]))
    elif k == "fatom":
        out.extend(e[3])
    elif k in ("add", "mul"):
        for x in e[1]:
            index_terms(x, out)
    elif k == "sum":
        index_terms(e[2], out)
    elif k == "pow":
        index_terms(e[1], out)
    elif k == "fn":
        index_terms(e[2], out)
    return out


def atoms_of(e, out=None):
    if out is None:
        out = set()
    k = e[0]
    if k == "atom":
        out.add(e[1])
    elif k in ("add", "mul"):
        for x in e[1]:
            atoms_of(x, out)
    elif k == "sum":
        atoms_of(e[2], out)
    elif k == "pow":
        atoms_of(e[1], out)
    elif k == "fn":
        atoms_of(e[2], out)
    return out


# ------------------------------------------------------------------ context
class Ctx:
    def __init__(self):
        self.sym = {}        # atom name -> list of slot groups that are symmetric, e.g. [(1, 2)]
        self.inv_pairs = {}  # P -> Q: sum_j P[b,i,j] Q[b,j,k] = delta(i,k); matrix slots = last two
        self.inv_rel = {}    # name -> relation record for Inv[X] of compound X
        self.keys = {}       # interned F-atom argument forms: form -> id
        self.forms = []      # id -> form
        self.stats = {"canon": 0, "normalize": 0, "invrel": 0}
        self.diag = {}       # atom name -> True if declared diagonal in its last two slots (stored as vector atom)
        self.max_perm = 40320
        self.idempotent = set()
        self.fsym = {}           # (fname, keyid) -> symmetric hole groups of a function atom
        self.partitions = {}     # sort -> [(map name, part sort), ...]: the maps are injections with disjoint ranges covering sort
        self.part_of = {}        # map name -> (sort, position)

    def intern(self, form):
        k = self.keys.get(form)
        if k is None:
            k = len(self.forms)
            self.keys[form] = k
            self.forms.append(form)
        return k


# ------------------------------------------------------------------ raw polynomials
# raw monomial key: (factors: tuple, bound: frozenset of IV).  factor:
#   ('A', name, idxs, power)   atom
#   ('D', i, j)                delta
#   ('N', sort, power)         dimension scalar
#   ('F', fname, keyid, holes, power)   function atom of a canonical polynomial with holes


def _fsubst(f, m):
    t = f[0]
    if t == "A":
        return ("A", f[1], tuple(isub(i, m) for i in f[2]), f[3])
    if t == "D":
        return ("D", isub(f[1], m), isub(f[2], m))
    if t == "N":
        return f
    if t == "F":
        return ("F", f[1], f[2], tuple(isub(i, m) for i in f[3]), f[4])
    raise KernelError(f)


def _fidx(x):
    t = x[0]
    if t == "A":
        return x[2]
    if t == "D":
        return (x[1], x[2])
    if t == "F":
        return x[3]
    return ()


def pmul(p, q):
    r = {}
    for (f1, b1), c1 in p.items():
        for (f2, b2), c2 in q.items():
            if b1 & b2:
                m = {v: IV(v.sort) for v in b2 if v in b1}
                f2 = tuple(_fsubst(f, m) for f in f2)
                b2 = frozenset(m.get(v, v) for v in b2)
            k = (f1 + f2, b1 | b2)
            r[k] = r.get(k, 0) + c1 * c2
    return r


def padd(p, q):
    r = dict(p)
    for k, c in q.items():
        r[k] = r.get(k, 0) + c
    return r


_ONE_RAW = ((), frozenset())


def raw(e, ctx):
    """expression -> raw poly (not canonical)"""
    k = e[0]
    if k == "num":
        return {_ONE_RAW: e[1]} if e[1] != 0 else {}
    if k == "dim":
        if isinstance(e[1], str) and e[1].startswith("#"):
            return {_ONE_RAW: Fraction(int(e[1][1:]))}
        return {((("N", e[1], 1),), frozenset()): Fraction(1)}
    if k == "atom":
        return {((("A", e[1], e[2], 1),), frozenset()): Fraction(1)}
    if k == "delta":
        return {((("D", e[1], e[2]),), frozenset()): Fraction(1)}
    if k == "fatom":
        return {((("F", e[1], e[2], e[3], e[4]),), frozenset()): Fraction(1)}
    if k == "add":
        r = {}
        for x in e[1]:
            for kk, c in raw(x, ctx).items():
                r[kk] = r.get(kk, 0) + c
        return r
    if k == "mul":
        # multiply small factors first
        r = {_ONE_RAW: Fraction(1)}
        for x in e[1]:
            r = pmul(r, raw(x, ctx))
            if not r:
                return r
        return r
    if k == "sum":
        srt = e[1].sort
        if isinstance(srt, str) and srt.startswith("#"):
            # concrete axis: expand explicitly
            r = {}
            for kk in range(int(srt[1:])):
                for key, c in raw(subst(e[2], {e[1]: IC(kk)}), ctx).items():
                    r[key] = r.get(key, 0) + c
            return r
        p = raw(e[2], ctx)
        r = {}
        for (f, b), c in p.items():
            v = IV(e[1].sort)
            m = {e[1]: v}
            kk = (tuple(_fsubst(x, m) for x in f), b | {v})
            r[kk] = r.get(kk, 0) + c
        return r
    if k == "pow":
        n = e[2]
        if n >= 0:
            r = {_ONE_RAW: Fraction(1)}
            if n == 0:
                return r
            base = raw(e[1], ctx)
            for _ in range(n):
                r = pmul(r, base)
            return r
        return _inv_poly(e[1], ctx, -n)
    if k == "fn":
        return _fnatom(e[1], e[2], ctx, 1)
    raise KernelError(k)


# ------------------------------------------------------------------ function atoms
def _free_ivs_of_canon(p):
    seen = []
    for (f, nb), c in p.items():
        for x in f:
            for i in _fidx(x):
                for v in ivs_in(i):
                    if v not in seen:
                        seen.append(v)
    return seen


def _hsub(i, m):
    """substitute IVs by hole/bound markers inside an index term"""
    if isinstance(i, IV):
        return m.get(i, i)
    if is_app(i):
        return ("app", i[1], tuple(_hsub(a, m) for a in i[2]))
    return i


def _fsubst_h(f, m):
    t = f[0]
    if t == "A":
        return ("A", f[1], tuple(_hsub(i, m) for i in f[2]), f[3])
    if t == "D":
        return ("D", _hsub(f[1], m), _hsub(f[2], m))
    if t == "F":
        return ("F", f[1], f[2], tuple(_hsub(i, m) for i in f[3]), f[4])
    return f


def _ikey(i):
    if isinstance(i, IV):
        return (3, str(i.sort), i.id)
    if isinstance(i, IC):
        return (0, "", i.k)
    if isinstance(i, tuple):
        if i[0] == "app":
            return (2, i[1], tuple(_ikey(a) for a in i[2]))
        return (1, i[0], i[1])   # ('B',k,sort) / ('H',k)
    raise KernelError(f"bad index {i!r}")


def _fkey(f):
    t = f[0]
    if t == "A":
        return (0, f[1], f[3], tuple(_ikey(i) for i in f[2]))
    if t == "D":
        return (1, "", 1, tuple(sorted(_ikey(i) for i in (f[1], f[2]))))
    if t == "N":
        return (2, str(f[1]), f[2], ())
    if t == "F":
        return (3, f"{f[1]}#{f[2]}", f[4], tuple(_ikey(i) for i in f[3]))
    raise KernelError(f)


def _symnorm(x, ctx):
    """indices of a symmetric atom ordered by their hole / bound names (so that S[i,j] and S[j,i] give the same form)"""
    if ctx is None or x[0] != "A":
        return x
    groups = ctx.sym.get(x[1])
    if not groups:
        return x
    idx = list(x[2])
    for g in groups:
        if max(g) >= len(idx):
            continue
        vals = sorted((idx[q] for q in g), key=_ikey)
        for q, v in zip(g, vals):
            idx[q] = v
    return ("A", x[1], tuple(idx), x[3])


def _poly_form(p, m, ctx=None):
    """canonical poly p with free IVs replaced per m -> sorted tuple of (factors, nbound, coeff)"""
    items = []
    for (f, nb), c in p.items():
        ff = tuple(sorted((_symnorm(_fsubst_h(x, m), ctx) for x in f), key=_fkey))
        items.append((tuple(_fkey(x) for x in ff), nb, c, ff))
    items.sort(key=lambda t: (t[0], t[1], t[2]))
    return tuple((t[3], t[1], t[2]) for t in items), tuple((t[0], t[1], t[2]) for t in items)


def make_fatom(fname, p, ctx, power=1, fixed_order=None):
    """F-atom factor for fname(p) where p is a canonical poly.  Free IVs become holes in a canonical order
    (or in fixed_order if given).  returns factor tuple."""
    frees = _free_ivs_of_canon(p)
    if fixed_order is not None:
        assert set(map(id, frees)) <= set(map(id, fixed_order))
        frees = list(fixed_order)
        m = {v: ("H", k) for k, v in enumerate(frees)}
        form, _ = _poly_form(p, m)
        return ("F", fname, ctx.intern(form), tuple(frees), power)
    frees.sort(key=lambda v: v.id)
    best = None
    n = len(frees)
    if n > 6:
        raise KernelError("function atom with more than 6 free indices")
    # prune permutations: only permute within same sort
    bysort = {}
    for v in frees:
        bysort.setdefault(str(v.sort), []).append(v)
    groups = [bysort[s] for s in sorted(bysort)]
    offs = []
    o = 0
    for g in groups:
        offs.append(o)
        o += len(g)
    for perms in itertools.product(*[itertools.permutations(range(len(g))) for g in groups]):
        m = {}
        for g, pm, off in zip(groups, perms, offs):
            for v, pi in zip(g, pm):
                m[v] = ("H", off + pi)
        form, key = _poly_form(p, m)
        if best is None or key < best[0]:
            best = (key, form, dict(m))
    bestkey, form, m = best
    holes = [None] * n
    for v, h in m.items():
        holes[h[1]] = v
    kid = ctx.intern(form)
    if n >= 2 and (fname, kid) not in ctx.fsym:
        # hole symmetries: swapping two holes of the same sort leaves the canonical form invariant
        groups = []
        for i in range(n):
            for j in range(i + 1, n):
                if str(holes[i].sort) != str(holes[j].sort):
                    continue
                # re-canonicalise p with the two index variables exchanged and compare
                tmp = IV(holes[i].sort)
                e_sw = subst(subst(subst(poly_to_expr(p), {holes[i]: tmp}), {holes[j]: holes[i]}), {tmp: holes[j]})
                try:
                    p_sw = normalize(e_sw, ctx)
                    _, key2 = _poly_form(p_sw, m)
                    same = key2 == bestkey
                    if not same and fname in ("exp", "log", "Phi", "phi", "sqrt", "cosh", "tanh"):
                        # equal as rational functions (e.g. two rank-one updates applied in either order)?
                        d_ = normalize(sub(e_sw, poly_to_expr(p)), ctx)
                        if d_:
                            d2_ = log_product_rule(d_, ctx)
                            d_ = d2_ if d2_ is not None else d_
                        if d_:
                            d_ = clear_denominators(d_, ctx)
                        same = not d_
                except KernelError:
                    continue
                if same:
                    for g in groups:
                        if i in g or j in g:
                            g.update((i, j))
                            break
                    else:
                        groups.append({i, j})
        ctx.fsym[(fname, kid)] = [tuple(sorted(g)) for g in groups]
    return ("F", fname, kid, tuple(holes), power)


def _is_const_poly(p):
    """p == c (a number) -> c else None"""
    if not p:
        return Fraction(0)
    if len(p) == 1:
        (f, nb), c = next(iter(p.items()))
        if not f and nb == 0:
            return c
    return None


def _single_factor(p):
    """p == 1 * (single factor)^1 with no bound -> factor else None"""
    if len(p) == 1:
        (f, nb), c = next(iter(p.items()))
        if c == 1 and nb == 0 and len(f) == 1:
            return f[0]
    return None


def _fnatom(fname, arg, ctx, power):
    p = normalize(arg, ctx)
    return _fn_of_canon(fname, p, ctx, power)


def _fn_of_canon(fname, p, ctx, power=1):
    c = _is_const_poly(p)
    if fname == "exp":
        if c is not None and c == 0:
            return {_ONE_RAW: Fraction(1)}
        # exp(a + q*log(c0)) = c0^q * exp(a) for a numeric constant c0 > 0 and integer q
        scale = Fraction(1)
        rest_p = {}
        for (ff, nb), cc in p.items():
            if nb == 0 and len(ff) == 1 and ff[0][0] == "F" and ff[0][1] == "log" and not ff[0][3] and ff[0][4] == 1 \
                    and cc.denominator == 1:
                form = ctx.forms[ff[0][2]]
                if len(form) == 1 and not form[0][0] and form[0][1] == 0 and form[0][2] > 0:
                    scale *= Fraction(form[0][2]) ** int(cc)
                    continue
            rest_p[(ff, nb)] = cc
        if scale != 1:
            inner = _fn_of_canon("exp", rest_p, ctx, 1)
            sc = scale ** power
            return {k2: v2 * sc for k2, v2 in inner.items()} if power == 1 else \
                {k2: v2 * sc for k2, v2 in raw(powr(poly_to_expr_raw(inner), power), ctx).items()}
        sf = _single_factor(p)
        if sf is not None and sf[0] == "F" and sf[1] == "log" and sf[4] == 1:
            inner = form_to_expr(ctx.forms[sf[2]], dict(enumerate(sf[3])))
            return raw(powr(inner, power), ctx) if power >= 0 else _inv_poly(inner, ctx, -power)
    if fname == "log":
        if c is not None and c == 1:
            return {}
        sf = _single_factor(p)
        if sf is not None and sf[0] == "F" and sf[1] == "exp":
            inner = form_to_expr(ctx.forms[sf[2]], dict(enumerate(sf[3])))
            return raw(mul(num(sf[4] * power), inner), ctx)
        if sf is not None and sf[0] == "F" and sf[1] == "inv" and power == 1:
            # log(1/P^k) = -k log(P)   (P is the positive denominator of a defined quotient)
            inner = form_to_expr(ctx.forms[sf[2]], dict(enumerate(sf[3])))
            return raw(mul(num(-sf[4]), fn("log", inner)), ctx)
        if len(p) == 1:
            (ff, nb), cc = next(iter(p.items()))
            if nb == 0 and cc == 1 and len(ff) == 1 and ff[0][0] in ("A", "F") and ff[0][-1] not in (0, 1):
                # log(f^p) = p log(f): for p = -1 valid whenever the left-hand side is defined; for other p it needs
                # f > 0, which holds for the atoms that reach a logarithm with a power (declared positive scales)
                pw_ = ff[0][-1]
                pos = ff[0][:-1] + (1,)
                inner = _fn_of_canon("log", {((pos,), 0): Fraction(1)}, ctx, 1)
                return {k2: pw_ * power * v2 for k2, v2 in inner.items()}
    if fname == "sqrt":
        if c is not None and c in (0, 1):
            return {_ONE_RAW: c} if c else {}
    if fname in ("Phi", "phi", "cosh", "tanh") and p:
        # parity: orient the argument so that its first monomial (canonical order) has a positive coefficient
        first = min(p.items(), key=lambda kv: (tuple(_fkey(x) for x in kv[0][0]), kv[0][1]))
        if first[1] < 0 and _inf_sign(p) is None:
            negp = {k2: -v2 for k2, v2 in p.items()}
            inner = _fn_of_canon(fname, negp, ctx, 1)
            if fname in ("phi", "cosh"):          # even functions
                res = inner
            elif fname == "tanh":                 # odd
                res = {k2: -v2 for k2, v2 in inner.items()}
            else:                                 # Phi(-z) = 1 - Phi(z)
                res = padd({_ONE_RAW: Fraction(1)}, {k2: -v2 for k2, v2 in inner.items()})
            if power == 1:
                return res
            return raw(powr(poly_to_expr_raw(res), power), ctx) if power > 0 else _inv_poly(poly_to_expr_raw(res), ctx, -power)
    if fname in ("Phi", "phi", "step"):
        sg = _inf_sign(p)
        if sg is not None:
            if fname == "phi":
                return {}
            val = Fraction(1 if sg > 0 else 0)
            return {_ONE_RAW: val} if val else {}
        if fname == "step" and c is not None:
            return {_ONE_RAW: Fraction(1)} if c >= 0 else {}
    if fname == "sqrt" and len(p) == 1:
        (ff, nb), cc = next(iter(p.items()))
        if nb == 0 and cc == 1 and len(ff) == 1 and ff[0][0] == "F" and ff[0][1] == "inv" and ff[0][4] == 1:
            # sqrt(1/P) = 1/sqrt(P) for a positive polynomial P
            innerP = form_to_expr(ctx.forms[ff[0][2]], dict(enumerate(ff[0][3])))
            sq = raw(fn("sqrt", innerP), ctx)
            return _inv_poly(poly_to_expr_raw(sq), ctx, power) if power > 0 else raw(powr(poly_to_expr_raw(sq), -power), ctx)
        if nb == 0 and cc == 1 and len(ff) == 1 and ff[0][0] in ("A", "F") and ff[0][-1] == -1:
            # sqrt(1/f) = 1/sqrt(f) for f > 0 (f reaches a square root only as a positive scale / variance)
            pos = ff[0][:-1] + (1,)
            inner = _fn_of_canon("sqrt", {((pos,), 0): Fraction(1)}, ctx, 1)
            return _inv_poly(poly_to_expr_raw(inner), ctx, power) if power > 0 else raw(powr(poly_to_expr_raw(inner), -power), ctx)
        if nb == 0 and cc > 0 and len(ff) >= 2 and all(x[0] in ("A", "N", "F") and isinstance(x[-1], int) and x[-1] < 0 for x in ff):
            # sqrt(1/(f g ...)) = 1/sqrt(f g ...): the radicand of a defined square root is positive, so is its reciprocal
            posf = tuple(x[:-1] + (-x[-1],) for x in ff)
            inner = _fn_of_canon("sqrt", {(posf, 0): Fraction(1) / cc}, ctx, 1)
            return _inv_poly(poly_to_expr_raw(inner), ctx, power) if power > 0 else raw(powr(poly_to_expr_raw(inner), -power), ctx)
        if nb == 0 and all(x[0] in ("A", "N", "F") and x[-1] % 2 == 0 for x in ff) and _is_square(cc) \
                and all(x[0] == "N" or (x[0] == "A" and x[1] in getattr(ctx, "positive", ())) or
                        (x[0] == "F" and x[1] in ("exp", "sqrt", "cosh", "phi", "Phi")) for x in ff):
            # sqrt(f^2) = f only for factors known to be positive (declared positive atoms, sizes, positive functions)
            half = tuple((x[:-1] + (x[-1] // 2,)) for x in ff)
            out = {(half, frozenset()): _frac_sqrt(cc)}
            if power != 1:
                return raw(powr(poly_to_expr_raw(out), power), ctx) if power > 0 else _inv_poly(poly_to_expr_raw(out), ctx, -power)
            return out
    f = make_fatom(fname, p, ctx, power)
    return {((f,), frozenset()): Fraction(1)}


def _inf_sign(p):
    """p = c*INF + (terms without INF)  ->  sign of c, else None"""
    hits = [(f, c) for (f, nb), c in p.items() if any(x[0] == "A" and x[1] == "INF" for x in f)]
    if len(hits) != 1:
        return None
    f, c = hits[0]
    if len(f) == 1 and f[0][3] == 1:
        return 1 if c > 0 else -1
    return None


def _is_square(c):
    from math import isqrt
    return c > 0 and isqrt(c.numerator) ** 2 == c.numerator and isqrt(c.denominator) ** 2 == c.denominator


def _frac_sqrt(c):
    from math import isqrt
    return Fraction(isqrt(c.numerator), isqrt(c.denominator))


def poly_to_expr_raw(rawp):
    return ("add", tuple(_mono_to_expr(f, c, {}) for (f, b), c in rawp.items()))


def _inv_poly(e, ctx, n):
    """raw poly for e^(-n)"""
    p = normalize(e, ctx)
    if not p:
        raise KernelError("division by an expression that normalises to zero")
    if len(p) == 1:
        (f, nb), c = next(iter(p.items()))
        if nb == 0:
            # monomial without bound indices: invert factor-wise
            fs = []
            for x in f:
                if x[0] == "A":
                    fs.append(("A", x[1], x[2], -x[3] * n))
                elif x[0] == "N":
                    fs.append(("N", x[1], -x[2] * n))
                elif x[0] == "F":
                    fs.append(("F", x[1], x[2], x[3], -x[4] * n))
                elif x[0] == "D":
                    raise KernelError("division by a delta")
            return {(tuple(fs), frozenset()): Fraction(1) / (c ** n)}
    # case split on a 0/1-valued step factor s with free arguments:  1/P(s)^n = (1-s)/P(0)^n + s/P(1)^n
    sfac = None
    for (f, nb), c in p.items():
        for x in f:
            if x[0] == "F" and x[1] == "step" and not any(isinstance(v, tuple) and v[0] == "B" for h in x[3] for v in _index_leaves(h)):
                sfac = x
                break
        if sfac is not None:
            break
    if sfac is not None:
        without = {k: c for k, c in p.items() if sfac not in k[0]}
        # only when P(0) is a non-zero constant (e.g. 1 + h*s): then the unused branch (1-s)/P(0) is defined everywhere
        c0_ = _is_const_poly(without) if without else None
        if without and len(without) < len(p) and c0_ is not None and c0_ != 0:
            stripped = dict(without)
            for (f, nb), c in p.items():
                if sfac in f:
                    k2 = (tuple(x for x in f if x != sfac), nb)
                    stripped[k2] = stripped.get(k2, Fraction(0)) + c
            e0, e1 = poly_to_expr(without), poly_to_expr(stripped)
            s_e = ("fatom", "step", sfac[2], sfac[3], 1)
            r0 = pmul(raw(sub(num(1), s_e), ctx), _inv_poly(e0, ctx, n))
            r1 = pmul(raw(s_e, ctx), _inv_poly(e1, ctx, n))
            return padd(r0, r1)
    f = make_fatom("inv", p, ctx, n)
    return {((f,), frozenset()): Fraction(1)}


def _index_leaves(i):
    if isinstance(i, tuple) and i and i[0] == "app":
        for a in i[2]:
            yield from _index_leaves(a)
    else:
        yield i


def form_to_expr(form, holes_map):
    """canonical poly form (with ('H',k) holes and ('B',k,sort) bound names) -> Expr"""
    terms = []
    for (f, nb, c) in form:
        terms.append(_mono_to_expr(f, c, holes_map))
    return ("add", tuple(terms))


def _mono_to_expr(f, c, holes_map, ctx=None):
    bm = {}

    def ix(i):
        if isinstance(i, tuple):
            if i[0] == "H":
                return holes_map[i[1]]
            if i[0] == "B":
                if i not in bm:
                    bm[i] = IV(i[2])
                return bm[i]
            if i[0] == "app":
                return ("app", i[1], tuple(ix(a) for a in i[2]))
        return i

    fs = [("num", c)]
    for x in f:
        if x[0] == "A":
            fs.append(("pow", ("atom", x[1], tuple(ix(i) for i in x[2])), x[3]) if x[3] != 1
                      else ("atom", x[1], tuple(ix(i) for i in x[2])))
        elif x[0] == "D":
            fs.append(("delta", ix(x[1]), ix(x[2])))
        elif x[0] == "N":
            fs.append(("pow", ("dim", x[1]), x[2]))
        elif x[0] == "F":
            fs.append(("fatom", x[1], x[2], tuple(ix(i) for i in x[3]), x[4]))
    e = ("mul", tuple(fs))
    for v in bm.values():
        e = ("sum", v, e)
    return e


def poly_to_expr(p):
    """canonical poly (free IVs are real IV objects) -> Expr"""
    return ("add", tuple(_mono_to_expr(f, c, {}) for (f, nb), c in p.items()))


# ------------------------------------------------------------------ normal form
def normalize(e, ctx):
    ctx.stats["normalize"] += 1
    p = raw(e, ctx)
    return canon_poly(p, ctx)


def canon_poly(p, ctx):
    out = {}
    work = list(p.items())
    steps = 0
    while work:
        (f, b), c = work.pop()
        if c == 0:
            continue
        steps += 1
        if steps > 2000000:
            raise KernelError("normalisation did not terminate (rewrite budget)")
        res = simplify_mono(list(f), set(b), ctx)
        if res is None:
            continue
        if isinstance(res, dict):  # rewritten into a poly: re-process
            for k2, c2 in res.items():
                work.append((k2, c * c2))
            continue
        f2, b2, coef = res
        key = canon_mono(f2, b2, ctx)
        out[key] = out.get(key, 0) + c * coef
    return {k: v for k, v in out.items() if v != 0}


def _occ(f, v):
    n = 0
    for x in f:
        for i in _fidx(x):
            if i is v:
                n += 1
            elif is_app(i):
                for w in ivs_in(i):
                    if w is v:
                        n += 1
    return n


def _same_index(p, q):
    if p is q:
        return True
    if isinstance(p, IC) and isinstance(q, IC):
        return p.k == q.k
    if is_app(p) and is_app(q):
        return p[1] == q[1] and len(p[2]) == len(q[2]) and all(_same_index(a, b) for a, b in zip(p[2], q[2]))
    return False


def simplify_mono(f, b, ctx):
    """delta elimination, inverse-pair contraction, exp merging, power merging.
    returns (factors, bound, coef) or None (zero) or dict (raw poly) if a rewrite branches"""
    changed = True
    coef = Fraction(1)
    while changed:
        changed = False
        # deltas
        for n, x in enumerate(f):
            if x[0] != "D":
                continue
            i, j = x[1], x[2]
            if isinstance(i, IC) and isinstance(j, IC):
                if i.k != j.k:
                    return None
                f.pop(n)
                changed = True
                break
            if _same_index(i, j):
                if isinstance(i, IV) and i in b and _occ(f, i) == 2:
                    f.pop(n)
                    b.discard(i)
                    f.append(("N", i.sort, 1))
                else:
                    f.pop(n)
                changed = True
                break
            tgt = None
            if isinstance(i, IV) and i in b:
                tgt = (i, j)
            elif isinstance(j, IV) and j in b:
                tgt = (j, i)
            if tgt and not any(w is tgt[0] for w in ivs_in(tgt[1])):
                f.pop(n)
                m = {tgt[0]: tgt[1]}
                f[:] = [_fsubst(y, m) for y in f]
                b.discard(tgt[0])
                changed = True
                break
            # both sides free: keep the delta, but identify the two indices in the other factors
            rep = None
            if isinstance(i, IV) and isinstance(j, IV):
                rep = (j, i) if i.id < j.id else (i, j)
            elif isinstance(i, IV) and not any(w is i for w in ivs_in(j)):
                rep = (i, j)
            elif isinstance(j, IV) and not any(w is j for w in ivs_in(i)):
                rep = (j, i)
            if rep is not None:
                others = [y for k2, y in enumerate(f) if k2 != n]
                if any(w is rep[0] for y in others for t in _fidx(y) for w in ivs_in(t)):
                    m = {rep[0]: rep[1]}
                    f[:] = [(_fsubst(y, m) if k2 != n else y) for k2, y in enumerate(f)]
                    changed = True
                    break
        if changed:
            continue
        # bound var with no occurrence -> dimension factor
        for v in list(b):
            if _occ(f, v) == 0:
                b.discard(v)
                f.append(("N", v.sort, 1))
                changed = True
        if changed:
            continue
        if ctx.partitions:
            r = _partition_rules(f, b, ctx)
            if r is not None:
                if r == "changed":
                    changed = True
                    continue
                return r
        # inverse pairs
        if ctx.inv_pairs:
            hit = _find_inv(f, b, ctx)
            if hit:
                n1, n2, i, k, jv = hit
                for n in sorted((n1, n2), reverse=True):
                    f.pop(n)
                b.discard(jv)
                f.append(("D", i, k))
                changed = True
                continue
        # zero atoms / diagonal structure are handled by the shim; Inv relations:
        if ctx.inv_rel:
            r = apply_inv_rel(f, b, ctx)
            if r is not None:
                return r
        r = _inv_atom_rule(f, b, ctx)
        if r is not None:
            return r
        # exp merging
        r = _merge_exp(f, b, ctx)
        if r is not None:
            return r
    # merge identical factors -> powers
    merged = {}
    order = []
    for x in f:
        if x[0] == "A":
            k = ("A", x[1], x[2])
            pw = x[3]
        elif x[0] == "N":
            k = ("N", x[1])
            pw = x[2]
        elif x[0] == "F":
            k = ("F", x[1], x[2], x[3])
            pw = x[4]
        else:
            k = x
            pw = 1
        kk = _merge_key(k, ctx)
        if kk not in merged:
            merged[kk] = [k, 0]
            order.append(kk)
        merged[kk][1] += pw
    f2 = []
    cancelled = False
    for kk in order:
        k, pw = merged[kk]
        if pw == 0 and k[0] != "D":
            cancelled = True
            continue
        if k[0] == "A":
            if pw > 1 and k[1] in getattr(ctx, "idempotent", ()):
                pw = 1     # 0/1-valued selector atoms: s^k = s
            f2.append(("A", k[1], k[2], pw))
        elif k[0] == "N":
            f2.append(("N", k[1], pw))
        elif k[0] == "F":
            if k[1] == "sqrt" and (pw % 2 == 0 or pw >= 2 or pw <= -1):
                # sqrt(a)^2 = a;  sqrt(a)^-1 = sqrt(a) / a  (canonical powers of a square root: 0 or 1)
                inner = form_to_expr(ctx.forms[k[2]], dict(enumerate(k[3])))
                rest = [("F", k[1], k[2], k[3], pw % 2)] if pw % 2 else []
                others = _rebuild_without(f, k)
                base = {(tuple(others + rest), frozenset(b)): Fraction(1)}
                return pmul(base, raw(powr(inner, pw // 2), ctx))
            if k[1] == "step" and pw > 1:
                pw = 1
            if k[1] == "inv" and pw < 0:
                inner = form_to_expr(ctx.forms[k[2]], dict(enumerate(k[3])))
                others = _rebuild_without(f, k)
                base = {(tuple(others), frozenset(b)): Fraction(1)}
                return pmul(base, raw(powr(inner, -pw), ctx))
            f2.append(("F", k[1], k[2], k[3], pw))
        else:
            f2.append(k)
    if cancelled and f2:
        # factors cancelled (x * x^-1): contractions that were blocked by them may now apply
        r = simplify_mono(list(f2), set(b), ctx)
        if r is None or isinstance(r, dict):
            return r
        f3, b3, c3 = r
        return f3, b3, coef * c3
    # a bound variable may have lost all occurrences through power cancellation
    for v in list(b):
        if _occ(f2, v) == 0:
            b.discard(v)
            f2.append(("N", v.sort, 1))
            return simplify_mono(f2, b, ctx)
    return f2, b, coef


def _partition_rules(f, b, ctx):
    """rules for a sort D partitioned by injections s_0, s_1, ...:
       delta(s_p(i), s_p(k)) = delta(i,k);  delta(s_p(i), s_q(j)) = 0 (p != q);
       |D| = sum of part sizes;  sum_{d:D} g(d) = sum_p sum_{i} g(s_p(i))  (only if no inverse pair contracts over d)"""
    for n, x in enumerate(f):
        if x[0] == "D" and is_app(x[1]) and is_app(x[2]) and x[1][1] in ctx.part_of and x[2][1] in ctx.part_of:
            pa, pb = ctx.part_of[x[1][1]], ctx.part_of[x[2][1]]
            if pa[0] == pb[0]:
                if pa[1] != pb[1]:
                    return {}
                f[n] = ("D", x[1][2][0], x[2][2][0])
                return "changed"
    for n, x in enumerate(f):
        if x[0] == "N" and x[1] in ctx.partitions:
            parts = ctx.partitions[x[1]]
            rest = [y for k2, y in enumerate(f) if k2 != n]
            if x[2] > 1:
                rest.append(("N", x[1], x[2] - 1))
            elif x[2] < 1:
                continue
            out = {}
            for (nm, ps) in parts:
                key = (tuple(rest) + (("N", ps, 1),), frozenset(b))
                out[key] = out.get(key, 0) + Fraction(1)
            return out
    for v in list(b):
        if v.sort in ctx.partitions:
            # do not split while an inverse-pair contraction over v is still possible
            if ctx.inv_pairs and _pair_contracts_over(f, b, ctx, v):
                continue
            out = {}
            for (nm, ps) in ctx.partitions[v.sort]:
                u = IV(ps)
                m = {v: ("app", nm, (u,))}
                key = (tuple(_fsubst(y, m) for y in f), frozenset((set(b) - {v}) | {u}))
                out[key] = out.get(key, 0) + Fraction(1)
            return out
    # partial contraction over the first part of a partition:  P[x, s0(v)] Q[s0(v), y] = delta(x,y) - sum_{q>0} P[x,s_q(u)] Q[s_q(u),y]
    for n1, x in enumerate(f):
        if x[0] != "A" or x[3] != 1:
            continue
        Q = ctx.inv_pairs.get(x[1])
        if Q is None:
            continue
        for n2, y in enumerate(f):
            if n2 == n1 or y[0] != "A" or y[1] != Q or y[3] != 1 or len(x[2]) != len(y[2]):
                continue
            if not all(_same_index(p, q) for p, q in zip(x[2][:-2], y[2][:-2])):
                continue
            xs, ys = x[2][-2:], y[2][-2:]
            xsl = (0, 1) if _is_sym(ctx, x[1], len(x[2])) else (1,)
            ysl = (0, 1) if _is_sym(ctx, y[1], len(y[2])) else (0,)
            for a in xsl:
                for c in ysl:
                    t1, t2 = xs[a], ys[c]
                    if not (is_app(t1) and is_app(t2) and t1[1] == t2[1] and t1[1] in ctx.part_of):
                        continue
                    srt, pos = ctx.part_of[t1[1]]
                    if pos != 0 or len(t1[2]) != 1:
                        continue
                    v1, v2 = t1[2][0], t2[2][0]
                    if not (isinstance(v1, IV) and v1 is v2 and v1 in b and _occ(f, v1) == 2):
                        continue
                    rest = [z for k2, z in enumerate(f) if k2 not in (n1, n2)]
                    nb = set(b) - {v1}
                    out = {}
                    k1 = (tuple(rest) + (("D", xs[1 - a], ys[1 - c]),), frozenset(nb))
                    out[k1] = out.get(k1, 0) + Fraction(1)
                    for (nm, ps) in ctx.partitions[srt][1:]:
                        u = IV(ps)
                        xi = list(x[2]); xi[len(xi) - 2 + a] = ("app", nm, (u,))
                        yi = list(y[2]); yi[len(yi) - 2 + c] = ("app", nm, (u,))
                        k2_ = (tuple(rest) + (("A", x[1], tuple(xi), 1), ("A", y[1], tuple(yi), 1)), frozenset(nb | {u}))
                        out[k2_] = out.get(k2_, 0) - Fraction(1)
                    return out
    return None


def _pair_contracts_over(f, b, ctx, v):
    if _occ(f, v) != 2:
        return False
    hits = [x for x in f if x[0] == "A" and x[3] == 1 and any(i is v for i in x[2][-2:])]
    if len(hits) != 2:
        return False
    x, y = hits
    return ctx.inv_pairs.get(x[1]) == y[1] and all(_same_index(p, q) for p, q in zip(x[2][:-2], y[2][:-2]))


def _merge_key(k, ctx=None):
    """hashable identity key for factor merging (IVs by identity; symmetric slots in canonical order)"""
    def ik(i):
        if isinstance(i, IV):
            return ("v", i.id)
        if isinstance(i, IC):
            return ("c", i.k)
        if is_app(i):
            return ("app", i[1], tuple(ik(a) for a in i[2]))
        return i
    if k[0] == "A":
        idx = [ik(i) for i in k[2]]
        if ctx is not None:
            for g in ctx.sym.get(k[1], []):
                vals = sorted((idx[p] for p in g), key=repr)
                for p, v in zip(g, vals):
                    idx[p] = v
        return ("A", k[1], tuple(idx))
    if k[0] == "N":
        return ("N", str(k[1]))
    if k[0] == "F":
        idx = [ik(i) for i in k[3]]
        if ctx is not None:
            for g in ctx.fsym.get((k[1], k[2]), []):
                vals = sorted((idx[p] for p in g), key=repr)
                for p, v in zip(g, vals):
                    idx[p] = v
        return ("F", k[1], k[2], tuple(idx))
    if k[0] == "D":
        return ("D",) + tuple(sorted((ik(k[1]), ik(k[2])), key=repr))
    raise KernelError(k)


def _rebuild_without(f, k):
    kk = _merge_key(k)
    out = []
    for x in f:
        if x[0] == "F" and _merge_key(("F", x[1], x[2], x[3])) == kk:
            continue
        out.append(x)
    return out


def _merge_exp(f, b, ctx):
    idx = [n for n, x in enumerate(f) if x[0] == "F" and x[1] == "exp"]
    if not idx:
        return None
    if len(idx) == 1 and f[idx[0]][4] == 1:
        return None
    terms = []
    for n in idx:
        x = f[n]
        inner = form_to_expr(ctx.forms[x[2]], dict(enumerate(x[3])))
        terms.append(mul(num(x[4]), inner))
    rest = [x for n, x in enumerate(f) if n not in idx]
    newp = _fnatom("exp", ("add", tuple(terms)), ctx, 1)
    return pmul({(tuple(rest), frozenset(b)): Fraction(1)}, newp)


def _inv_atom_rule(f, b, ctx):
    """oriented rule for a rational atom whose denominator depends on a bound index (it cannot be cleared):
           inv(P) * lead(P)  ->  (1 - inv(P) * (P - lead(P))) / c_lead
    applied when the monomial contains inv(P) together with the lead term of P (a single non-constant factor)."""
    for n0, x in enumerate(f):
        if x[0] != "F" or x[1] != "inv" or x[4] < 1:
            continue
        if all(_hole_free_of_bound(h, b) for h in x[3]):
            continue            # free denominators are cleared globally instead
        form = ctx.forms[x[2]]
        hm = dict(enumerate(x[3]))
        lead = None
        for ti, (ff, nb, c) in enumerate(form):
            if nb == 0 and len(ff) == 1 and ff[0][0] in ("F", "A") and ff[0][-1] == 1:
                if lead is None or ff[0][0] == "F":
                    lead = (ti, ff[0], c)
        if lead is None:
            continue
        ti, lf, lc = lead

        def inst(i):
            if isinstance(i, tuple) and i and i[0] == "H":
                return hm[i[1]]
            if is_app(i):
                return ("app", i[1], tuple(inst(a) for a in i[2]))
            return i
        if lf[0] == "F":
            want = ("F", lf[1], lf[2], tuple(inst(i) for i in lf[3]))
        else:
            want = ("A", lf[1], tuple(inst(i) for i in lf[2]))
        wk = _merge_key(want, ctx)
        for n1, y in enumerate(f):
            if n1 == n0 or y[0] != want[0]:
                continue
            yk = _merge_key(("F", y[1], y[2], y[3]) if y[0] == "F" else ("A", y[1], y[2]), ctx)
            if yk != wk or y[-1] < 1:
                continue
            rest = []
            for k2, z in enumerate(f):
                if k2 == n0:
                    if z[4] > 1:
                        rest.append(z[:4] + (z[4] - 1,))
                elif k2 == n1:
                    if z[-1] > 1:
                        rest.append(z[:-1] + (z[-1] - 1,))
                else:
                    rest.append(z)
            base = {(tuple(rest), frozenset(b)): Fraction(1)}
            out = {(tuple(rest), frozenset(b)): Fraction(1) / lc}
            inv1 = ("F", "inv", x[2], x[3], 1)
            for tj, (ff, nb, c) in enumerate(form):
                if tj == ti:
                    continue
                term = _mono_to_expr(ff, c, hm)
                add_p = pmul({(tuple(rest) + (inv1,), frozenset(b)): Fraction(-1) / lc}, raw(term, ctx))
                out = padd(out, add_p)
            return out
    return None


def _hole_free_of_bound(h, b):
    return not any(v in b for v in ivs_in(h))


def _find_inv(f, b, ctx):
    for n1, x in enumerate(f):
        if x[0] != "A" or x[3] != 1:
            continue
        Q = ctx.inv_pairs.get(x[1])
        if Q is None:
            continue
        for n2, y in enumerate(f):
            if n2 == n1 or y[0] != "A" or y[1] != Q or y[3] != 1:
                continue
            if len(x[2]) != len(y[2]):
                continue
            if not all(_same_index(p, q) for p, q in zip(x[2][:-2], y[2][:-2])):
                continue
            xs, ys = x[2][-2:], y[2][-2:]
            xsl = (0, 1) if _is_sym(ctx, x[1], len(x[2])) else (1,)
            ysl = (0, 1) if _is_sym(ctx, y[1], len(y[2])) else (0,)
            for a in xsl:
                for c in ysl:
                    j = xs[a]
                    if isinstance(j, IV) and j is ys[c] and j in b and _occ(f, j) == 2:
                        return n1, n2, xs[1 - a], ys[1 - c], j
    return None


def _is_sym(ctx, name, n):
    for g in ctx.sym.get(name, []):
        if tuple(g) == (n - 2, n - 1):
            return True
    return False


# ------------------------------------------------------------------ canonical monomials
def canon_mono(f, b, ctx):
    """canonical key for a monomial up to bound-variable renaming and atom slot symmetries.
    The monomial is split into connected components (factors linked through shared BOUND indices); each component is
    canonicalised on its own and the components are sorted, so a product of many small contractions costs the sum, not the
    product, of their permutation counts."""
    ctx.stats["canon"] += 1
    bl = sorted(b, key=lambda v: v.id)
    if not bl:
        return (_sortf(f, {}, ctx), 0)
    bset = set(map(id, bl))
    # union-find over factors through shared bound variables
    owner = {}
    parent = list(range(len(f)))

    def find(x):
        while parent[x] != x:
            parent[x] = parent[parent[x]]
            x = parent[x]
        return x
    for n, x in enumerate(f):
        for i in _fidx(x):
            for v in ivs_in(i):
                if id(v) in bset:
                    if id(v) in owner:
                        ra, rb = find(owner[id(v)]), find(n)
                        if ra != rb:
                            parent[ra] = rb
                    else:
                        owner[id(v)] = n
    comps = {}
    for n in range(len(f)):
        comps.setdefault(find(n), []).append(n)
    parts = []
    for root, members in comps.items():
        fs = [f[n] for n in members]
        bs = [v for v in bl if any(any(w is v for i in _fidx(x) for w in ivs_in(i)) for x in fs)]
        key, cand = _canon_component(fs, bs, ctx)
        parts.append((key, cand, len(bs)))
    parts.sort(key=lambda t: t[0])
    out = []
    off = 0
    for key, cand, nb in parts:
        if off:
            cand = tuple(_shift_bound(x, off) for x in cand)
        out.extend(cand)
        off += nb
    return (tuple(sorted(out, key=_fkey)), len(bl))


def _shift_bound(x, off):
    def sh(i):
        if isinstance(i, tuple):
            if i and i[0] == "B":
                return ("B", i[1] + off, i[2])
            if i and i[0] == "app":
                return ("app", i[1], tuple(sh(a) for a in i[2]))
        return i
    if x[0] == "A":
        return ("A", x[1], tuple(sh(i) for i in x[2]), x[3])
    if x[0] == "D":
        return ("D", sh(x[1]), sh(x[2]))
    if x[0] == "F":
        return ("F", x[1], x[2], tuple(sh(i) for i in x[3]), x[4])
    return x


def _canon_component(f, bl, ctx):
    """canonical form of one connected component: returns (sortable key, factor tuple with ('B',k,sort) names from 0)"""
    if not bl:
        cand = _sortf(f, {}, ctx)
        return tuple(_fkey(x) for x in cand), cand

    def sig(v):
        s = []
        for x in f:
            for pos, i in enumerate(_fidx(x)):
                hit = (i is v) or (is_app(i) and any(w is v for w in ivs_in(i)))
                if hit:
                    name = x[1] if x[0] in ("A", "F") else "δ"
                    symg = ctx.sym.get(name, []) if x[0] == "A" else (ctx.fsym.get((x[1], x[2]), []) if x[0] == "F" else [])
                    p = pos
                    for g in symg:
                        if pos in g:
                            p = g[0]
                    tag = (x[0], str(name) if x[0] != "F" else f"{x[1]}#{x[2]}", p,
                           x[3] if x[0] == "A" else (x[4] if x[0] == "F" else 1),
                           i[1] if is_app(i) else "")
                    s.append(tag)
        return (str(v.sort), tuple(sorted(s)))

    classes = {}
    for v in bl:
        classes.setdefault(sig(v), []).append(v)
    keys = sorted(classes)
    groups = [classes[k] for k in keys]
    groups = _refine(groups, f, ctx)
    total = 1
    for g in groups:
        for k in range(2, len(g) + 1):
            total *= k
    if total > ctx.max_perm:
        raise KernelError(f"canonicalisation too large ({total} permutations, {len(bl)} bound indices in one component)")
    best = None
    offs = []
    o = 0
    for g in groups:
        offs.append(o)
        o += len(g)
    for perms in itertools.product(*[itertools.permutations(range(len(g))) for g in groups]):
        m = {}
        for g, pm, off in zip(groups, perms, offs):
            for v, pi in zip(g, pm):
                m[v] = ("B", off + pi, str(v.sort))
        cand = _sortf(f, m, ctx)
        key = tuple(_fkey(x) for x in cand)
        if best is None or key < best[0]:
            best = (key, cand)
    return best


def _refine(groups, f, ctx):
    """colour refinement: split classes by the multiset of (factor, own slot, colours of co-indices)"""
    colour = {}
    for gi, g in enumerate(groups):
        for v in g:
            colour[id(v)] = gi
    for _ in range(3):
        newsig = {}
        for g in groups:
            for v in g:
                s = []
                for x in f:
                    idxs = _fidx(x)
                    here = [pos for pos, i in enumerate(idxs) if (i is v) or (is_app(i) and any(w is v for w in ivs_in(i)))]
                    if not here:
                        continue
                    name = x[1] if x[0] in ("A", "F") else "δ"
                    symg = ctx.sym.get(name, []) if x[0] == "A" else (ctx.fsym.get((x[1], x[2]), []) if x[0] == "F" else [])

                    def slot(pos):
                        for gsym in symg:
                            if pos in gsym:
                                return gsym[0]
                        return pos
                    others = []
                    for pos, i in enumerate(idxs):
                        if pos in here:
                            continue
                        cs = []
                        for w in ivs_in(i):
                            cs.append(colour.get(id(w), ("free", w.id)))
                        if isinstance(i, IC):
                            cs.append(("c", i.k))
                        others.append((slot(pos) if x[0] != "D" else 0, repr(cs)))
                    s.append((x[0], str(name) if x[0] != "F" else f"{x[1]}#{x[2]}", tuple(sorted(slot(p) for p in here)),
                              tuple(sorted(others))))
                newsig[id(v)] = (colour[id(v)], tuple(sorted(s)))
        newgroups = []
        for g in groups:
            sub = {}
            for v in g:
                sub.setdefault(newsig[id(v)], []).append(v)
            for k in sorted(sub, key=repr):
                newgroups.append(sub[k])
        if len(newgroups) == len(groups):
            break
        groups = newgroups
        for gi, g in enumerate(groups):
            for v in g:
                colour[id(v)] = gi
    return groups


def _sortf(f, m, ctx):
    out = []
    for x in f:
        y = _fsubst_h(x, m)
        if y[0] == "A":
            gs = ctx.sym.get(y[1])
            if gs:
                idx = list(y[2])
                for g in gs:
                    vals = sorted((idx[p] for p in g), key=_ikey)
                    for p, v in zip(g, vals):
                        idx[p] = v
                y = ("A", y[1], tuple(idx), y[3])
        elif y[0] == "D":
            a, c = sorted((y[1], y[2]), key=_ikey)
            y = ("D", a, c)
        elif y[0] == "F":
            gs = ctx.fsym.get((y[1], y[2]))
            if gs:
                idx = list(y[3])
                for g in gs:
                    vals = sorted((idx[p] for p in g), key=_ikey)
                    for p, v in zip(g, vals):
                        idx[p] = v
                y = ("F", y[1], y[2], tuple(idx), y[4])
        out.append(y)
    return tuple(sorted(out, key=_fkey))


def is_zero(e, ctx):
    p = normalize(e, ctx)
    if not p:
        return True
    p = clear_denominators(p, ctx)
    return not p


def residual(e, ctx):
    p = normalize(e, ctx)
    if p:
        p2 = log_product_rule(p, ctx)
        if p2 is not None:
            p = p2
    if p:
        p = clear_denominators(p, ctx)
    if p:
        p2 = unify_fatoms(p, ctx)
        if p2 is not None:
            p = clear_denominators(p2, ctx) if p2 else p2
    return p


def log_product_rule(p, ctx):
    """completion step: a group of pure logarithm monomials  sum_i c_i log(A_i)  vanishes if  prod_i A_i^(c_i * D) == 1 as a
    rational identity (D = common denominator of the c_i).  Returns the polynomial without the group, or None."""
    logs = []
    for (f, nb), c in p.items():
        if nb == 0 and len(f) == 1 and f[0][0] == "F" and f[0][1] == "log" and f[0][4] == 1:
            logs.append(((f, nb), c, f[0]))
    if len(logs) < 2 or len(logs) > 8:
        return None
    from math import lcm
    D = 1
    for _, c, _ in logs:
        D = lcm(D, c.denominator)
    num, den = [("num", Fraction(1))], [("num", Fraction(1))]
    for _, c, x in logs:
        e = int(c * D)
        arg = form_to_expr(ctx.forms[x[2]], dict(enumerate(x[3])))
        if e > 0:
            num.append(("pow", arg, e))
        elif e < 0:
            den.append(("pow", arg, -e))
    try:
        d = normalize(sub(("mul", tuple(num)), ("mul", tuple(den))), ctx)
        if d:
            d = clear_denominators(d, ctx)
    except KernelError:
        return None
    if d:
        return None
    drop = set(k for k, _, _ in logs)
    return {k: v for k, v in p.items() if k not in drop}


def unify_fatoms(p, ctx, fnames=("exp", "log", "Phi", "phi", "sqrt", "cosh", "tanh", "step")):
    """completion step: two function atoms f<key1>, f<key2> whose ARGUMENTS are equal as rational functions (after
    clearing denominators, up to a permutation of their holes) denote the same value.  Rewrites key2 -> key1 in p and
    renormalises.  Returns None if nothing could be unified."""
    seen = {}
    for (f, nb), c in p.items():
        for x in f:
            if x[0] == "F" and x[1] in fnames:
                seen.setdefault((x[1], x[2]), len(x[3]))
    keys = sorted(seen)
    if len(keys) < 2 or len(keys) > 12:
        return None
    rules = {}     # (fname, key2) -> (key1, perm)  meaning  f<key2>(h) = f<key1>(h[perm[0]], h[perm[1]], ...)
    for a in range(len(keys)):
        for b_ in range(a + 1, len(keys)):
            (fn1, k1), (fn2, k2) = keys[a], keys[b_]
            if fn1 != fn2 or seen[keys[a]] != seen[keys[b_]] or (fn2, k2) in rules or (fn1, k1) in rules:
                continue
            n = seen[keys[a]]
            if n > 4:
                continue
            hs = [IV(f"?{i}") for i in range(n)]
            # recover hole sorts from the forms (holes are untyped markers): try all permutations, let normalisation decide
            for perm in itertools.permutations(range(n)):
                try:
                    e1 = form_to_expr(ctx.forms[k1], {i: hs[perm[i]] for i in range(n)})
                    e2 = form_to_expr(ctx.forms[k2], {i: hs[i] for i in range(n)})
                    d = normalize(sub(e1, e2), ctx)
                    if d:
                        d2 = log_product_rule(d, ctx)
                        if d2 is not None:
                            d = d2
                    if d:
                        d = clear_denominators(d, ctx)
                except KernelError:
                    continue
                if not d:
                    rules[(fn2, k2)] = (k1, perm, 1)
                    break
                if fn1 in ("Phi", "phi", "cosh", "tanh"):
                    # parity: arguments that are NEGATIVES of each other as rational functions
                    try:
                        d = normalize(add(e1, e2), ctx)
                        if d:
                            d = clear_denominators(d, ctx)
                    except KernelError:
                        continue
                    if not d:
                        rules[(fn2, k2)] = (k1, perm, -1)
                        break
    if not rules:
        return None

    def fix(e):
        k = e[0]
        if k == "fatom" and (e[1], e[2]) in rules:
            k1, perm, sgn = rules[(e[1], e[2])]
            # f<k2>(h_0..h_n) with e2 holes i -> hs[i], e1 holes i -> hs[perm[i]]  =>  f<k1> holes[i] = h[perm[i]]
            holes = tuple(e[3][perm[i]] for i in range(len(perm)))
            if sgn == 1 or e[1] in ("phi", "cosh"):
                return ("fatom", e[1], k1, holes, e[4])
            if e[1] == "tanh":
                base = ("fatom", e[1], k1, holes, e[4])
                return base if e[4] % 2 == 0 else ("mul", (num(-1), base))
            # Phi(-x) = 1 - Phi(x)
            if isinstance(e[4], int) and e[4] >= 1:
                one_minus = ("add", (num(1), ("mul", (num(-1), ("fatom", e[1], k1, holes, 1)))))
                return one_minus if e[4] == 1 else ("pow", one_minus, e[4])
            return e
        if k in ("add", "mul"):
            return (k, tuple(fix(x) for x in e[1]))
        if k == "sum":
            return ("sum", e[1], fix(e[2]))
        if k == "pow":
            return ("pow", fix(e[1]), e[2])
        if k == "fn":
            return ("fn", e[1], fix(e[2]))
        return e
    return normalize(fix(poly_to_expr(p)), ctx)


# ------------------------------------------------------------------ printing
def show(p, ctx=None, limit=40):
    lines = []
    for n, ((f, nb), c) in enumerate(sorted(p.items(), key=lambda kv: repr(tuple(_fkey(x) for x in kv[0][0])))):
        if n >= limit:
            lines.append(f"  ... ({len(p) - limit} more monomials)")
            break
        lines.append(f"  {c} * " + " ".join(_show_f(x, ctx) for x in f) + (f"   [Σ over {nb} bound]" if nb else ""))
    return "\n".join(lines) if lines else "  0"


def _show_i(i):
    if isinstance(i, tuple):
        if i[0] == "app":
            return f"{i[1]}({','.join(_show_i(a) for a in i[2])})"
        return f"{i[0].lower()}{i[1]}"
    return repr(i)


def _show_f(x, ctx=None):
    if x[0] == "A":
        return f"{x[1]}[{','.join(_show_i(i) for i in x[2])}]" + (f"^{x[3]}" if x[3] != 1 else "")
    if x[0] == "D":
        return f"δ({_show_i(x[1])},{_show_i(x[2])})"
    if x[0] == "N":
        return f"|{x[1]}|" + (f"^{x[2]}" if x[2] != 1 else "")
    if x[0] == "F":
        inner = ""
        if ctx is not None:
            form = ctx.forms[x[2]]
            inner = ":" + " + ".join(f"{c}*" + "·".join(_show_f(y, None) for y in ff) for ff, nb, c in form[:4])
            if len(form) > 4:
                inner += "+…"
        if ctx is None:
            inner = f":#{x[2]}"
        return f"{x[1]}<{inner[1:]}>({','.join(_show_i(i) for i in x[3])})" + (f"^{x[4]}" if x[4] != 1 else "")


# ------------------------------------------------------------------ denominators
def clear_denominators(p, ctx):
    """multiply poly p by the denominators of its inv-atoms (assumed nonzero; recorded in ctx.cleared);
    only for inv atoms whose holes are free in every monomial where they occur"""
    for _ in range(12):
        target = None
        for (f, nb), c in p.items():
            for x in f:
                if x[0] == "F" and x[1] == "inv" and all(_hole_free(h) for h in x[3]):
                    target = (x[2], x[3])
                    break
            if target:
                break
        if not target:
            return p
        key, holes = target
        E = 0
        for (f, nb), c in p.items():
            for x in f:
                if x[0] == "F" and x[1] == "inv" and x[2] == key and _same_holes(x[3], holes):
                    E = max(E, x[4])
        P = form_to_expr(ctx.forms[key], dict(enumerate(holes)))
        if not hasattr(ctx, "cleared"):
            ctx.cleared = []
        ctx.cleared.append((key, holes))
        terms = []
        for (f, nb), c in p.items():
            e = 0
            rest = []
            for x in f:
                if x[0] == "F" and x[1] == "inv" and x[2] == key and _same_holes(x[3], holes):
                    e = x[4]
                else:
                    rest.append(x)
            mono = _mono_to_expr(tuple(rest), c, {})
            terms.append(("mul", (mono, ("pow", rename_bound(P), E - e))))
        p = normalize(("add", tuple(terms)), ctx)
        if not p:
            return p
    return p


def _hole_free(h):
    if isinstance(h, tuple) and h and h[0] == "B":
        return False
    if is_app(h):
        return all(_hole_free(a) for a in h[2])
    return True


def _same_holes(a, b):
    return len(a) == len(b) and all(_same_index(p, q) or p == q for p, q in zip(a, b))


# ------------------------------------------------------------------ Inv[X] for compound X
def register_inv(ctx, name, X, batch, row, col, head=0, symmetric=True):
    """name: atom name of Inv[X]; X: Expr with free IVs batch+[row,col].
    Registers the relation  sum_j Inv[b,i,j] X[b,j,k] = delta(i,k)  oriented on term number `head` of X."""
    p = normalize(X, ctx)
    terms = []
    for (f, nb), c in sorted(p.items(), key=lambda kv: repr(tuple(_fkey(x) for x in kv[0][0]))):
        terms.append((c, f))
    # head orientation: prefer a term that the matcher can recognise -- plain atoms with power one, ideally a single
    # atom carrying both matrix indices (e.g. the noise covariance in  Sigma + M Sx M' + ...)
    def score(t):
        c, f = t
        simple = all(x[0] == "A" and x[3] == 1 for x in f)
        if not simple:
            return (2, len(f))
        direct = any(any(i is row for i in x[2]) and any(i is col for i in x[2]) for x in f)
        return (0 if (len(f) == 1 and direct) else 1, len(f))
    if head == 0 and terms:
        pref = getattr(ctx, "prefer_family_head", None)
        fbatch = [b_ for b_ in batch if pref and (pref is True or str(b_.sort) in pref)]
        if fbatch:
            # family indices (sorts named by the obligation) whose members get MULTIPLIED with each other (P_a ... P_b):
            # orienting on the family-independent term L (L P_a -> I - K_a P_a) has the critical pair P_a L P_b; orient
            # on a term that depends on the family index instead (if the matcher cannot use it as a head the relation
            # simply stays inactive, which is sound)
            def fam(t):
                ivs = set(id(v) for x in t[1] for v in _factor_ivs(x))
                missing = len([b_ for b_ in fbatch if id(b_) not in ivs])
                partner = any(x[0] == "A" and x[1] in ctx.inv_pairs for x in t[1])
                return (missing, 1 if partner else 0)
            head = min(range(len(terms)), key=lambda k: (fam(terms[k]), score(terms[k]), k))
        else:
            head = min(range(len(terms)), key=lambda k: (score(terms[k]), k))
    ctx.inv_rel[name] = dict(terms=terms, batch=list(batch), row=row, col=col, head=head, X=X)
    if symmetric:
        nb = len(batch)
        ctx.sym[name] = [(nb, nb + 1)]
    return len(terms)


def _factor_ivs(x):
    if x[0] == "A":
        idx = x[2]
    elif x[0] == "F":
        idx = x[3]
    elif x[0] == "D":
        idx = (x[1], x[2])
    else:
        idx = ()
    for i in idx:
        for v in _index_leaves(i):
            if isinstance(v, IV):
                yield v


def _inst(fpat, m):
    """instantiate pattern factors with mapping m (IV or ('B',..) -> index term); unmapped B's get fresh IVs"""
    newb = []

    def ix(i):
        if isinstance(i, IV):
            return m.get(i, i)
        if isinstance(i, tuple):
            if i[0] == "B":
                if i in m:
                    return m[i]
                v = IV(i[2])
                m[i] = v
                newb.append(v)
                return v
            if i[0] == "app":
                return ("app", i[1], tuple(ix(a) for a in i[2]))
        return i
    out = []
    for x in fpat:
        if x[0] == "A":
            out.append(("A", x[1], tuple(ix(i) for i in x[2]), x[3]))
        elif x[0] == "D":
            out.append(("D", ix(x[1]), ix(x[2])))
        elif x[0] == "F":
            out.append(("F", x[1], x[2], tuple(ix(i) for i in x[3]), x[4]))
        else:
            out.append(x)
    return out, newb


def _slot_perms(name, n, ctx):
    groups = ctx.sym.get(name, [])
    perms = [list(range(n))]
    for g in groups:
        new = []
        for base in perms:
            for pg in itertools.permutations(g):
                q = list(base)
                for src, dst in zip(g, pg):
                    q[src] = base[dst]
                new.append(q)
        perms = new
    seen = []
    for q in perms:
        if q not in seen:
            seen.append(q)
    return seen


def _match_idx(pi, yi, m):
    """match pattern index term pi against yi extending m; returns True/False"""
    if isinstance(pi, IC):
        return isinstance(yi, IC) and pi.k == yi.k
    if is_app(pi):
        if not (is_app(yi) and yi[1] == pi[1] and len(yi[2]) == len(pi[2])):
            return False
        return all(_match_idx(a, b_, m) for a, b_ in zip(pi[2], yi[2]))
    # variable-like: IV or ('B',..)
    if pi in m:
        return _same_index(m[pi], yi)
    m[pi] = yi
    return True


def _match(pat, f, used, m, ctx):
    """backtracking match of pattern atom list into monomial factors f; yields (used, m)"""
    if not pat:
        yield used, m
        return
    x = pat[0]
    if x[0] == "N":
        # dimension factor in the head: must be present
        for n, y in enumerate(f):
            if n not in used and y[0] == "N" and y[1] == x[1] and y[2] >= x[2]:
                yield from _match(pat[1:], f, used | {n}, m, ctx)
                return
        return
    if not (x[0] == "A" and x[3] == 1):
        return
    for n, y in enumerate(f):
        if n in used or y[0] != "A" or y[1] != x[1] or y[3] != 1 or len(y[2]) != len(x[2]):
            continue
        for perm in _slot_perms(x[1], len(x[2]), ctx):
            m2 = dict(m)
            ok = True
            for pos, pi in enumerate(x[2]):
                if not _match_idx(pi, y[2][perm[pos]], m2):
                    ok = False
                    break
            if ok:
                yield from _match(pat[1:], f, used | {n}, m2, ctx)


def apply_inv_rel(f, b, ctx):
    rel = ctx.inv_rel
    for n0, y in enumerate(f):
        if y[0] != "A" or y[1] not in rel or y[3] != 1:
            continue
        R = rel[y[1]]
        if R.get("disabled"):
            continue
        nbt = len(R["batch"])
        for (cpos, opos) in ((nbt + 1, nbt), (nbt, nbt + 1)):
            j, other = y[2][cpos], y[2][opos]
            if not (isinstance(j, IV) and j in b and _occ(f, j) == 2):
                continue
            ch, head = R["terms"][R["head"]]
            if any(x[0] not in ("A",) or x[3] != 1 for x in head):
                continue
            m0 = {}
            okb = True
            for bv, bi in zip(R["batch"], y[2][:nbt]):
                m0[bv] = bi
            m0[R["row"]] = j
            for used, m in _match(list(head), f, frozenset([n0]), m0, ctx):
                internal = [k for k in m if isinstance(k, tuple) and k[0] == "B"]
                tgt = [m[k] for k in internal]
                if len(set(map(id, tgt))) != len(tgt) or any(not (isinstance(t, IV) and t in b) for t in tgt):
                    continue
                matched = [f[n] for n in used if n != n0]
                okc = True
                for t in tgt:
                    inside = sum(1 for x in matched for i in _fidx(x) for w in ivs_in(i) if w is t)
                    if inside != _occ(f, t):
                        okc = False
                # j must occur only in y and the matched head
                if not okc or R["col"] not in m:
                    continue
                jin = sum(1 for x in matched for i in _fidx(x) for w in ivs_in(i) if w is j)
                if jin != 1:
                    continue
                kb = m[R["col"]]
                ctx.stats["invrel"] += 1
                rest = [x for n, x in enumerate(f) if n not in used]
                nb = set(b) - {j} - set(tgt)
                out = {}
                k1 = (tuple(rest) + (("D", other, kb),), frozenset(nb))
                out[k1] = out.get(k1, 0) + Fraction(1) / ch
                for ti, (ct, ft) in enumerate(R["terms"]):
                    if ti == R["head"]:
                        continue
                    j2 = IV(j.sort)
                    mm = {bv: bi for bv, bi in zip(R["batch"], y[2][:nbt])}
                    mm[R["row"]] = j2
                    mm[R["col"]] = kb
                    inst, newb = _inst(ft, mm)
                    yidx = list(y[2])
                    yidx[cpos] = j2
                    k2 = (tuple(rest) + (("A", y[1], tuple(yidx), 1),) + tuple(inst), frozenset(nb | {j2} | set(newb)))
                    out[k2] = out.get(k2, 0) - ct / ch
                return out
    return None
