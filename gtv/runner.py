"""Obligation runner: symbolic proof run, numeric replay, known findings, evidence (DESIGN §5)."""
import fnmatch
import importlib
import itertools
import json
import multiprocessing as mp
import os
import sys
import time
import traceback

VERIF = os.path.dirname(os.path.dirname(os.path.abspath(__file__)))

EXIT_OK, EXIT_VIOLATION, EXIT_UNDECIDED, EXIT_CRASH = 0, 1, 2, 3


class Obligation:
    def __init__(self, oid, fn, sorts, order=None, funcs=(), tier="quick", axioms=(), lemmas=(), bounded=None,
                 numeric=True, sizes=None, note="", only_clauses=None, skip_clauses=None, allow_empty=False, unit_sorts=()):
        self.id = oid
        self.fn = fn
        self.sorts = list(sorts)
        self.order = dict(order or {})      # (a, b) -> True  meaning size(a) > size(b)
        self.funcs = list(funcs)
        self.tier = tier
        self.axioms = list(axioms)
        self.lemmas = list(lemmas)
        self.bounded = bounded
        self.numeric = numeric
        self.sizes = sizes
        self.note = note
        self.only_clauses = list(only_clauses) if only_clauses else None
        self.skip_clauses = list(skip_clauses or [])
        self.allow_empty = allow_empty
        self.unit_sorts = tuple(unit_sorts)      # sorts of size ONE in this configuration (both worlds)
        self.diag_tags = ()                      # generator tags whose density is handed over as a GaussianDiagPDF

    def keeps(self, clause):
        if clause == "<no-raise>":
            return True
        if self.only_clauses is not None and not any(fnmatch.fnmatchcase(clause, p) for p in self.only_clauses):
            return False
        return not any(fnmatch.fnmatchcase(clause, p) for p in self.skip_clauses)


class Registry:
    def __init__(self, prop, skip_clauses=None, only_clauses=None):
        self.prop = prop
        self.obs = []
        self.skip_clauses = list(skip_clauses or [])
        self.only_clauses = only_clauses

    def ob(self, oid, sorts, **kw):
        def deco(fn):
            kw.setdefault("skip_clauses", self.skip_clauses)
            kw.setdefault("only_clauses", self.only_clauses)
            self.obs.append(Obligation(f"{self.prop}/{oid}", fn, sorts, **kw))
            return fn
        return deco

    def include(self, other_reg, only_clauses=None, skip_clauses=None, match=None, tier=None, prefix=None, exclude=None):
        """re-use the obligations of another property's registry, keeping only some of their clauses"""
        for o in other_reg.obs:
            if match and not fnmatch.fnmatchcase(o.id, match):
                continue
            if exclude and fnmatch.fnmatchcase(o.id, exclude):
                continue
            tail = o.id.split("/", 1)[1]
            self.obs.append(Obligation(f"{self.prop}/{prefix or other_reg.prop}:{tail}", o.fn, o.sorts, order=o.order, funcs=o.funcs,
                                       tier=tier or o.tier, axioms=o.axioms, lemmas=o.lemmas, bounded=o.bounded,
                                       numeric=o.numeric, sizes=o.sizes, note=o.note,
                                       only_clauses=only_clauses if only_clauses is not None else o.only_clauses,
                                       skip_clauses=(skip_clauses or []) + o.skip_clauses, allow_empty=True,
                                       unit_sorts=o.unit_sorts))


# ------------------------------------------------------------------ size-one configurations of dimension sorts
def unit_variants(obs):
    """additional obligations `<id>/<sort>=1` listed in /verif/unit_variants.json (tools/gen_unit_variants.py)"""
    import copy
    path = os.path.join(VERIF, "unit_variants.json")
    if not os.path.exists(path):
        return []
    with open(path) as fh:
        listed = {}
        for oid, unit in json.load(fh).get("variants", []):
            listed.setdefault(oid, []).append(unit)
    out = []
    for o in obs:
        for unit in listed.get(o.id, []):
            v = copy.copy(o)
            if unit == "prior=GaussianDiagPDF":
                v.id = f"{o.id}/{unit}"
                v.diag_tags = ("x",)
            else:
                v.id = f"{o.id}/{unit}=1"
                v.unit_sorts = tuple(o.unit_sorts) + (unit,)
            v.tier = "quick" if unit in ("D", "Dx", "Dy", "prior=GaussianDiagPDF") else "thorough"
            out.append(v)
    return out


# ------------------------------------------------------------------ size assignments for the numeric world
def size_assignments(ob, nvariants, seed):
    """distinct small sizes per sort respecting ob.order; deterministic in seed"""
    import random
    rnd = random.Random(seed * 7919 + 13)
    if ob.sizes:
        base = [dict(s) for s in ob.sizes]
    else:
        base = []
    sorts = ob.sorts
    out = list(base)
    tries = 0
    while len(out) < nvariants and tries < 200:
        tries += 1
        vals = list(range(2, 2 + max(3, len(sorts) + 1)))
        rnd.shuffle(vals)
        cand = {s: vals[i % len(vals)] for i, s in enumerate(sorts)}
        for s_ in getattr(ob, "unit_sorts", ()):
            cand[s_] = 1
        ok = True
        for (a, b), gt in ob.order.items():
            if a in cand and b in cand:
                if gt and not cand[a] > cand[b]:
                    ok = False
                if (not gt) and not cand[a] <= cand[b]:
                    ok = False
        if ok and cand not in out:
            out.append(cand)
    return out[:nvariants]


# ------------------------------------------------------------------ running one obligation
class TimeBudget(BaseException):
    """wall-clock budget of one symbolic obligation exhausted (BaseException: not swallowed by `except Exception`)"""


def _budget_handler(signum, frame):
    raise TimeBudget()


def run_symbolic(ob, canary=False):
    from . import extract as X
    from .world import SymWorld
    from . import shim as S
    from . import kernel as K
    order = {}
    for (a, b), gt in ob.order.items():
        order[(a, b)] = gt
    # every obligation starts from the same index-variable counter: its verdict must not depend on what the worker process
    # ran before
    import itertools
    K._ctr = itertools.count(1)
    w = SymWorld(order=order, unit_sorts=ob.unit_sorts)
    w.diag_tags = getattr(ob, "diag_tags", ())
    w.canary = canary
    t0 = time.time()
    status, err = "ok", ""
    # wall-clock budget per obligation: code that no longer satisfies a contract can make the normal forms explode; the
    # obligation is then left to the numeric world (a failing input is a violation, none is a checker failure, exit 3)
    budget = float(os.environ.get("GTV_OB_BUDGET", "900"))
    import signal
    old_handler = None
    try:
        old_handler = signal.signal(signal.SIGALRM, _budget_handler)
        signal.setitimer(signal.ITIMER_REAL, budget, 5.0)
    except (ValueError, AttributeError):
        old_handler = None
    try:
        with X.symbolic(w):
            ob.fn(w)
    except TimeBudget:
        status, err = "unsupported", f"KernelError: wall-clock budget of {budget:.0f} s per obligation exhausted"
    except S.ShapeError as ex:
        status, err = "shape-error", f"{type(ex).__name__}: {ex}\n" + _tb_repo(ex)
    except (S.ShimUnsupported, K.KernelError, S.Undecided) as ex:
        status, err = "unsupported", f"{type(ex).__name__}: {ex}\n" + _tb_repo(ex)
    except Exception as ex:  # exception raised by / inside the real code
        status, err = "exception", f"{type(ex).__name__}: {ex}\n" + _tb_repo(ex)
    finally:
        try:
            signal.setitimer(signal.ITIMER_REAL, 0)
            if old_handler is not None:
                signal.signal(signal.SIGALRM, old_handler)
        except (ValueError, AttributeError):
            pass
    wall = time.time() - t0
    return dict(status=status, error=err, wall=wall,
                clauses=[r.to_json() for r in w.results],
                decisions=sorted(set(f"{t} -> {v}" for t, v in w.decisions)),
                ops=dict(w.ops), assumptions=sorted(w.assumptions),
                inverted=[dict(n=r["n"], terms=r["terms"], symmetric=r["symmetric"]) for r in w.assumed_pd],
                stats=dict(w.ctx.stats), hints=list(w.hints_used), diag_applied=bool(getattr(w, "diag_applied", False)))


def _tb_repo(ex):
    tb = traceback.extract_tb(ex.__traceback__)
    lines = []
    for fr in tb:
        if "/gtv/runner.py" in fr.filename:
            continue
        lines.append(f"  {fr.filename}:{fr.lineno} in {fr.name}: {fr.line}")
    return "\n".join(lines[-8:])


def run_numeric(ob, sizes, seed):
    from . import extract as X
    from .world import NumWorld
    X.load()
    w = NumWorld(sizes, seed=seed)
    w.diag_tags = getattr(ob, "diag_tags", ())
    status, err = "ok", ""
    t0 = time.time()
    try:
        ob.fn(w)
    except Exception as ex:  # noqa
        status, err = "exception", f"{type(ex).__name__}: {ex}\n" + _tb_repo(ex)
    return dict(status=status, error=err, wall=time.time() - t0, sizes=sizes, seed=seed,
                clauses=[r.to_json() for r in w.results],
                inputs={k: _small(v) for k, v in w.inputs.items()})


def _small(a):
    import numpy as np
    a = np.asarray(a)
    if a.size <= 400:
        return dict(shape=list(a.shape), values=a.tolist())
    return dict(shape=list(a.shape), values="omitted (large); regenerate from seed and sizes")


def _worker(args):
    modname, oid, tier, seed, want_numeric = args
    try:
        mod = importlib.import_module(modname)
        ob = [o for o in list(mod.REG.obs) + unit_variants(mod.REG.obs) if o.id == oid][0]
        sym = run_symbolic(ob)
        sym["clauses"] = [c for c in sym["clauses"] if ob.keeps(c["clause"])]
        failed = [c for c in sym["clauses"] if not c["ok"]]
        if ob.allow_empty and sym["status"] == "ok" and not sym["clauses"]:
            return dict(id=oid, empty=True)
        res = dict(id=oid, sym=sym, num=[], funcs=ob.funcs, axioms=ob.axioms, lemmas=ob.lemmas, bounded=ob.bounded,
                   note=ob.note)
        sym_ok = sym["status"] == "ok" and not failed and sym["clauses"]
        # vacuity canary: the same extraction against a perturbed spec must be refuted
        nvar = 0
        if want_numeric and ob.numeric:
            nvar = 1 if (sym_ok and tier == "quick") else (2 if sym_ok else 4)
        for sizes in size_assignments(ob, nvar, seed):
            nr = run_numeric(ob, sizes, seed)
            nr["clauses"] = [c for c in nr["clauses"] if ob.keeps(c["clause"])]
            res["num"].append(nr)
        return res
    except Exception as ex:  # noqa
        return dict(id=oid, crash=f"{type(ex).__name__}: {ex}\n{traceback.format_exc()}")


# ------------------------------------------------------------------ known findings
def load_known():
    p = os.path.join(VERIF, "known_findings.json")
    if not os.path.exists(p):
        return []
    with open(p) as fh:
        return json.load(fh).get("findings", [])


def _norm_ws(s):
    return " ".join((s or "").split())


def match_known(known, prop, oid, clause, detail=""):
    """an open finding matches a failed clause iff obligation and clause patterns match AND the verifier's output
    contains the recorded signature (residual / message) -- a different failure of the same clause is not suppressed"""
    for k in known:
        if k.get("status") != "open" or prop not in k.get("properties", [k.get("property")]):
            continue
        for pat in k.get("obligations", []):
            o_pat, _, c_pat = pat.partition("::")
            if fnmatch.fnmatchcase(oid, o_pat) and fnmatch.fnmatchcase(clause, c_pat or "*"):
                sigs = k.get("signatures")
                if not sigs:
                    return k
                d = _norm_ws(detail)
                if any(_norm_ws(sg) == d or (sg.startswith("~") and _norm_ws(sg[1:]) in d) for sg in sigs):
                    return k
    return None


def load_baseline():
    p = os.path.join(VERIF, "baseline_obligations.json")
    if not os.path.exists(p):
        return None
    with open(p) as fh:
        return json.load(fh)


# ------------------------------------------------------------------ property check
def check_property(prop, tier="quick", seed=0, jobs=None, only=None, write_evidence=True, replay=None):
    t_start = time.time()
    modname = f"gtv.props.{prop}"
    mod = importlib.import_module(modname)
    obs = [o for o in mod.REG.obs if tier == "thorough" or o.tier == "quick"]
    obs = obs + [v for v in unit_variants(mod.REG.obs) if tier == "thorough" or v.tier == "quick"]
    if isinstance(only, (set, frozenset)):
        obs = [o for o in obs if o.id in only]
    elif only:
        obs = [o for o in obs if fnmatch.fnmatchcase(o.id, only) or only in o.id]
    if not obs:
        print(f"CHECKER-ERROR property={prop}: zero obligations generated (vacuity guard)")
        return EXIT_CRASH
    jobs = jobs or min(16, os.cpu_count() or 4)
    args = [(modname, o.id, tier, seed, True) for o in obs]
    ctx = mp.get_context("fork")
    if jobs > 1 and len(args) > 1:
        with ctx.Pool(min(jobs, len(args)), maxtasksperchild=8) as pool:
            results = pool.map(_worker, args, chunksize=1)
    else:
        results = [_worker(a) for a in args]
    known = load_known()
    baseline = load_baseline()
    base_ids = set((baseline or {}).get(prop, []))
    n_clauses = n_discharged = 0
    violations, undecided, crashes, known_hits = [], [], [], []
    conformance_fail = []
    samples = []
    funcs, axioms, lemmas, bounded, assumptions, decisions, ops = set(), set(), set(), [], set(), set(), {}
    solver_time = 0.0
    for r in results:
        oid = r["id"]
        if r.get("empty"):
            continue
        if "crash" in r:
            crashes.append((oid, r["crash"]))
            continue
        sym = r["sym"]
        funcs.update(r["funcs"])
        axioms.update(r["axioms"])
        lemmas.update(r["lemmas"])
        if r["bounded"]:
            bounded.append(dict(obligation=oid, bound=r["bounded"]))
        assumptions.update(sym["assumptions"])
        decisions.update(sym["decisions"])
        for k, v in sym["ops"].items():
            ops[k] = ops.get(k, 0) + v
        solver_time += sym["wall"]
        clause_fail = [c for c in sym["clauses"] if not c["ok"]]
        # numeric side
        num_fail = []
        for nr in r["num"]:
            if nr["status"] != "ok":
                num_fail.append((nr, dict(clause="<no-raise>", detail=nr["error"])))
            for c in nr["clauses"]:
                if not c["ok"]:
                    num_fail.append((nr, c))
        if sym["status"] == "ok" and sym["clauses"] and not clause_fail:
            n_clauses += len(sym["clauses"])
            n_discharged += len(sym["clauses"])
            if num_fail and r.get("bounded") and str(r["bounded"]).startswith("exhaustive"):
                # a bounded stand-in is DECIDED by the exhaustive enumeration on the real function (numeric world): a failing
                # case is a violation of the callee's contract, with the case as its replay
                nr, c = num_fail[0]
                n_discharged -= 1
                violations.append((oid, c["clause"], c.get("detail", ""), (nr, c)))
            elif num_fail:
                # proof says equal, real code on real jax disagrees: shim/kernel non-conformance -> checker failure
                conformance_fail.append((oid, num_fail[0][1]))
            if len(samples) < 6:
                samples.append(dict(obligation=oid, clauses=[c["clause"] for c in sym["clauses"]],
                                    wall_s=round(sym["wall"], 3), numeric_replays=len(r["num"])))
            continue
        # something failed symbolically
        if sym["status"] == "ok" and not sym["clauses"]:
            crashes.append((oid, "obligation produced zero clauses (vacuity guard)"))
            continue
        items = []
        if sym["status"] != "ok":
            items.append(("<no-raise>", sym["error"]))
            n_clauses += 1
        for c in sym["clauses"]:
            n_clauses += 1
            if c["ok"]:
                n_discharged += 1
            else:
                items.append((c["clause"], c["detail"]))
        for clause, detail in items:
            kf = match_known(known, prop, oid, clause, detail)
            if kf is not None:
                known_hits.append((kf, oid, clause))
                continue
            # find numeric witness
            wit = None
            for nr, c in num_fail:
                if c["clause"] == clause or clause == "<no-raise>" or c["clause"] == "<no-raise>":
                    wit = (nr, c)
                    break
            if wit is None and num_fail:
                wit = num_fail[0]
            if sym["status"] in ("unsupported",) and wit is None:
                crashes.append((oid, f"{clause}: {detail}"))
                continue
            if wit is None and base_ids and oid not in base_ids:
                undecided.append((oid, clause, detail))
                continue
            violations.append((oid, clause, detail, wit))
    # ---- Lean-checked lemma library (only when a lemma of it was used)
    lean = None
    if any(l.startswith("GtvLemmas") for l in lemmas):
        from . import leancheck
        lean = leancheck.status(force=(tier == "thorough" and os.environ.get("GTV_LEAN_FORCE") == "1"))
        missing = sorted(l.split(".", 1)[1] for l in lemmas if l.startswith("GtvLemmas.") and l.split(".", 1)[1] not in lean["theorems"])
        if missing:
            lean["ok"] = False
            lean["detail"] = f"lemmas used by the obligations but not proved in lean/GtvLemmas.lean: {missing}"
        if not lean["ok"]:
            crashes.append(("lean/GtvLemmas.lean", "Lean lemma library does not check: " + lean["detail"]))
    # ---- report
    rc = EXIT_OK
    os.makedirs(os.path.join(VERIF, "replays", prop), exist_ok=True)
    printed_known = set()
    for kf, oid, clause in known_hits:
        key = kf.get("id")
        if key in printed_known:
            continue
        printed_known.add(key)
        print(f"KNOWN-FINDING: property={prop} {kf.get('id')}: {kf.get('what')}")
    for oid, clause, detail, wit in violations:
        safe = (oid + "__" + clause).replace("<no-raise>", "no-raise").replace("<=", "le").replace(">=", "ge").replace("/", "_").replace("<", "lt").replace(">", "gt").replace(" ", "")[:170]
        path = os.path.join("replays", prop, safe + ".json")
        payload = dict(property=prop, obligation=oid, clause=clause, verifier_output=detail,
                       tier=tier, seed=seed)
        if wit is not None:
            nr, c = wit
            payload.update(kind="failing-input", sizes=nr["sizes"], num_seed=nr["seed"], inputs=nr["inputs"],
                           numeric_clause=c, replay_cmd=f"./check {prop} --replay {path}")
        else:
            payload.update(kind="no-failing-input-found")
        with open(os.path.join(VERIF, path), "w") as fh:
            json.dump(payload, fh, indent=1, default=str)
        tail = "" if wit is not None else " no-failing-input-found"
        print(f"VIOLATION property={prop} replay={path} obligation={oid} clause={clause}{tail}")
        rc = EXIT_VIOLATION
    for oid, clause, detail in undecided:
        print(f"UNDECIDED property={prop} obligation={oid} clause={clause}: {detail.splitlines()[0] if detail else ''}")
        if rc == EXIT_OK:
            rc = EXIT_UNDECIDED
    for oid, c in conformance_fail:
        print(f"CHECKER-ERROR property={prop} obligation={oid}: discharged symbolically but the numeric replay on real jax "
              f"disagrees ({c.get('clause')}: {c.get('detail')}) -- shim/kernel conformance failure")
        if rc == EXIT_OK:
            rc = EXIT_CRASH
    for oid, msg in crashes:
        print(f"CHECKER-ERROR property={prop} obligation={oid}: {msg.strip().splitlines()[0]}")
        sys.stderr.write(msg + "\n")
        if rc == EXIT_OK:
            rc = EXIT_CRASH
    wall = time.time() - t_start
    n_known_clauses = len(known_hits)
    if write_evidence and not only and os.environ.get("GTV_REPO", "/repo").rstrip("/") == "/repo":
        # (evidence is only ever written from runs against /repo itself, never from a scratch copy)
        from . import extract as X
        ev = dict(
            property_id=prop, tier=tier, seed=int(seed), level="proof",
            coverage=dict(
                obligations=n_clauses - n_known_clauses,
                discharged=n_discharged,
                known_finding_obligations=n_known_clauses,
                explanation=("obligations = proof clauses generated from /repo's current source in this run, excluding the "
                             "clauses that fail exactly as recorded in known_findings.json (counted in known_finding_obligations); "
                             "discharged = clauses whose residual normal form is identically zero"),
                checker_cmd=f"./check {prop} --tier {tier}",
                trusted_base=sorted(TRUSTED_BASE),
                functions_under_contract=sorted(funcs),
                back_ends={"K (GTV normal-form kernel, exact rationals)": n_discharged,
                           "R (numeric replay on real jax, not counted as proof)": int(sum(len(r.get("num", [])) for r in results if "num" in r))},
                solver_time_s=round(solver_time, 3),
                obligation_ids=len(obs),
                samples=samples,
                dimension_decisions=sorted(decisions)[:60],
                shim_primitives_used={k: v for k, v in sorted(ops.items()) if not k.startswith("einsum:")},
                einsum_patterns=sorted(k[7:] for k in ops if k.startswith("einsum:")),
                bounded_items=bounded,
                axioms_used=sorted(axioms),
                lemmas_used=sorted(lemmas),
                lean_library=(dict(ok=lean["ok"], wall_s=round(lean["wall_s"], 2), sha256=lean["sha"], cached_result=lean["cached"],
                                   theorems=lean["theorems"]) if lean else None),
                known_findings=sorted(set(k.get("id") for k, _, _ in known_hits)),
                source_sha256=X.source_hashes(),
                exhaustive=False,
            ),
            assumptions=sorted(set(GLOBAL_ASSUMPTIONS) | assumptions | set(f"axiom {a}" for a in axioms)),
            wall_s=round(wall, 3),
            violations=len(violations),
        )
        os.makedirs(os.path.join(VERIF, "evidence"), exist_ok=True)
        with open(os.path.join(VERIF, "evidence", f"{prop}.json"), "w") as fh:
            json.dump(ev, fh, indent=1, default=str)
    print(f"[{prop}] tier={tier} obligations={len(obs)} clauses={n_clauses} discharged={n_discharged} "
          f"known={n_known_clauses} violations={len(violations)} undecided={len(undecided)} "
          f"checker-errors={len(crashes) + len(conformance_fail)} wall={wall:.1f}s exit={rc}")
    return rc


TRUSTED_BASE = [
    "GTV kernel + shim + spec layer (Python, /verif/gtv) -- cross-checked by numeric replay on real jax and canaries",
    "CPython 3.12 executing the repository's own bytecode",
    "mathematical contracts of jax.numpy / jax.scipy primitives (DESIGN §7-E), conformance-tested against the pinned jax",
    "Lean 4.33 + Mathlib for the determinant/inverse lemma library (lean/GtvLemmas.lean)",
]

GLOBAL_ASSUMPTIONS = [
    "float64 arithmetic treated as real arithmetic (no rounding, overflow, NaN)",
    "jit / XLA / device placement not modelled",
    "positive definiteness of every matrix passed to invert_matrix / slogdet / cholesky is a precondition",
    "generic symbolic sizes stand for all sizes >= 2; size-1 cases are separate (Unit-axis) configurations",
]
