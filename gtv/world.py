"""Worlds: the same obligation text runs symbolically (proof) and numerically (conformance / replay).

SymWorld : generators return symbolic atoms with *symbolic sizes*; the real library code runs on the shim;
           equal() is decided by the kernel normal form for all sizes and values at once.
NumWorld : generators return random float64 arrays of concrete sizes; the real library code runs on real jax;
           equal() is numpy.allclose.  Used for counterexample replay and shim conformance, never as proof.
"""
import time
import math
import itertools
from fractions import Fraction
from . import kernel as K
from . import shim as S
from . import matrices as MX


class ClauseResult:
    def __init__(self, name, ok, detail="", wall=0.0, kind="kernel", extra=None):
        self.name = name
        self.ok = ok
        self.detail = detail
        self.wall = wall
        self.kind = kind
        self.extra = extra or {}

    def to_json(self):
        return dict(clause=self.name, ok=self.ok, detail=self.detail[:4000], wall_s=round(self.wall, 4), kind=self.kind,
                    **self.extra)


class SymWorld(S.World):
    symbolic = True

    def __init__(self, order=None, unit_sorts=()):
        super().__init__(order)
        self.unit_sorts = set(unit_sorts)      # sorts that have size ONE in this configuration (e.g. Dy = 1)
        self.results = []
        self.xp = S
        self.ld_rules = {}      # LD atom name -> (batch IVs, value expr)
        self.ld_rules_by_key = {}
        self.inv_rewrites = {}   # Inv atom name -> (batch IVs, row, col, expr)
        self.hints_used = []
        self.assumptions = set()
        S.set_world(self)

    # ---- generators
    def _d(self, dim):
        return 1 if (isinstance(dim, str) and dim in self.unit_sorts) else dim

    def arr(self, name, *dims, sym=None):
        return S.atom_array(name, *[self._d(d) for d in dims], sym=sym)

    def pos(self, name, *dims):
        self.assumptions.add(f"{name} > 0 (precondition)")
        self.ctx.__dict__.setdefault("positive", set()).add(name)
        return S.atom_array(name, *[self._d(d) for d in dims])

    def symm(self, name, batch, D):
        """symmetric matrix atom [batch..., D, D]"""
        D = self._d(D)
        batch = [self._d(b) for b in batch]
        if isinstance(D, int) and D == 1:
            return S.atom_array(name, *batch)[..., None, None]
        nb = len([b for b in batch if not (isinstance(b, int) and b == 1)])
        return S.atom_array(name, *batch, D, D, sym=[(nb, nb + 1)])

    def spd(self, name, batch, D):
        """well-formed covariance/precision pair: returns dict S (cov), L (prec), ld (= ln det S)"""
        D = self._d(D)
        batch = [self._d(b) for b in batch]
        if isinstance(D, int) and D == 1:
            # 1x1 covariance: a positive scalar per component; precision = reciprocal, ln det = log
            s = S.atom_array(f"S{name}", *batch)
            self.ctx.__dict__.setdefault("positive", set()).add(f"S{name}")
            self.assumptions.add(f"S{name} > 0 (1x1 covariance)")
            return dict(S=s[..., None, None], L=(1.0 / s)[..., None, None], ld=S.log(s))
        P, Q, ld = f"S{name}", f"L{name}", f"ld{name}"
        nb = len([b for b in batch if not (isinstance(b, int) and b == 1)])
        MX.declare_pair(self, P, Q, ld, nb)
        self.assumptions.add(f"S{name} symmetric positive definite with inverse L{name}, ld{name} = ln det S{name} (well-formed generator)")
        return dict(S=S.atom_array(P, *batch, D, D), L=S.atom_array(Q, *batch, D, D), ld=S.atom_array(ld, *batch))

    def diag_spd(self, name, batch, D):
        """diagonal SPD pair given by a positive vector s: S = diag(s)"""
        D = self._d(D)
        batch = [self._d(b) for b in batch]
        s = S.atom_array(f"s{name}", *batch, D)
        self.assumptions.add(f"s{name} > 0 (diagonal covariance entries)")
        eye = S.eye(1 if (isinstance(D, int) and D == 1) else S.Dim.of(D))
        Sg = s[..., None] * eye
        L = (1.0 / s)[..., None] * eye
        ld = S.sum(S.log(s), axis=-1)
        return dict(S=Sg, L=L, ld=ld, s=s)

    def index_map(self, name, new_sort, src_sort=None, n_src=1):
        return S.index_map(name, new_sort, n_src)

    def Phi(self, x):
        return S._unary("Phi")(x)

    def phi(self, x):
        return S._unary("phi")(x)

    def step(self, x):
        return S._indicator(x, 0.0)

    def inf(self):
        return S.inf

    def vmap(self, f, in_axes=0):
        return S.vmap(f, in_axes=in_axes)

    def random_key(self, name="key"):
        class _Key:
            pass
        k = _Key()
        k.name = name
        return k

    def random_normal(self, key, shape):
        """the standard-normal stream of the key (assumed contract of jax.random.normal: a deterministic function of
        key and shape with i.i.d. N(0,1) entries)"""
        return S.atom_array(f"z[{key.name}]", *shape)

    def cholesky(self, A):
        return MX.cholesky_contract(A)

    def atom_indices(self, arr, atom_name):
        """index tuples with which `atom_name` occurs in the normal form of a (non-block) array, in the array's own
        axis variables: returns (axes comps, list of index tuples, set of bound positions)"""
        arr = arr.fresh_copy()
        p = K.normalize(arr.expr, self.ctx)
        out = []
        for (f, nb), c in p.items():
            for x in f:
                if x[0] == "A" and x[1] == atom_name:
                    out.append(x[2])
        return [c for a in arr.axes for c in a.comps], out

    def block_index(self, part_sorts, which):
        """index list addressing the coordinates of blocks `which` (list of positions) of a direct-sum axis"""
        r = S.IndexArr("parts", parts=list(which), size=None)
        r.of = len(part_sorts)
        return r

    def partition(self, sort, parts, ascending=()):
        """index lists that partition range(|sort|): parts = [(name, part sort), ...]; arbitrary injections with disjoint
        ranges covering `sort` (any order).  Returns the IndexArr of every part."""
        K.declare_partition(self.ctx, sort, parts)
        out = []
        for name, ps in parts:
            self.map_sort[name] = sort
            out.append(S.index_map(name, ps))
        self.assumptions.add(f"index lists {[n for n, _ in parts]} are disjoint, without repetition, and cover range({sort})")
        return out

    def index_map2(self, n1, n2, new1, new2, src1=None, src2=None):
        """index array into a row-major product axis (R1*R2): entry (i',j') = rho1(i')*R2 + rho2(j'); also returns
        the two component maps"""
        v1, v2 = S.IV(new1), S.IV(new2)
        both = S.IndexArr("map", S.Axis([v1, v2]), [K.app(n1, v1), K.app(n2, v2)], name=f"{n1}x{n2}")
        return both, S.index_map(n1, new1), S.index_map(n2, new2)

    def block_gaussian(self, tag, batch, parts):
        """arbitrary Gaussian over a direct-sum space parts=[D1, D2]: block arrays mu, S (symmetric), L (symmetric), ld.
        (no inverse relation between S and L is declared: for obligations that only need moments)"""
        parts = [self._d(p) for p in parts]
        batch = [self._d(b) for b in batch]
        nb = len([b for b in batch if not (isinstance(b, int) and b == 1)])
        mu = S.concatenate([S.atom_array(f"m{tag}{k}", *batch, p) for k, p in enumerate(parts)], axis=-1)

        def blocks(pfx):
            rows = []
            for i, p in enumerate(parts):
                row = []
                for j, q in enumerate(parts):
                    if i == j and isinstance(p, int) and p == 1:
                        row.append(S.atom_array(f"{pfx}{tag}{i}{j}", *batch, p, q))
                    elif i == j:
                        row.append(S.atom_array(f"{pfx}{tag}{i}{j}", *batch, p, q, sym=[(nb, nb + 1)]))
                    elif i < j:
                        row.append(S.atom_array(f"{pfx}{tag}{i}{j}", *batch, p, q))
                    else:
                        row.append(S.swapaxes(S.atom_array(f"{pfx}{tag}{j}{i}", *batch, q, p), -1, -2))
                rows.append(row)
            return S.block(rows)
        return dict(mu=mu, S=blocks("S"), L=blocks("L"), ld=S.atom_array(f"ld{tag}", *batch))

    def size(self, sort):
        if isinstance(sort, str) and sort in self.unit_sorts:
            return 1
        return S.Dim.of(sort)

    def pick(self, name, src_sort=None):
        """index array of length one holding an arbitrary fixed component number"""
        r = S.IndexArr("map", S.UNIT, [K.app(name)], name=name)
        r.zero = src_sort is None      # index 0 into an axis of size 1
        return r

    # ---- spec-side linear algebra
    def inv(self, A):
        return MX.inverse_of(A)

    def logdet(self, A):
        return MX.logdet_of(A)

    def log2pi(self):
        return S.log(2.0 * S.pi)

    def ld_rule(self, matrix, value, lemma):
        MX.add_logdet_rule(self, matrix, value, lemma)

    def holds(self, name, b):
        """clause: a boolean array computed by the code is all-true"""
        ok = isinstance(b, S.BoolConst) and b.value
        self.results.append(ClauseResult(name, bool(ok), "" if ok else f"not provably all-true: {b!r}", 0.0, "kernel"))
        return bool(ok)

    def kernel_option(self, name, value=True):
        """obligation-level kernel configuration (every setting is a sound rewriting strategy, none adds an assumption)"""
        setattr(self.ctx, name, value)

    def is_contract_inverse(self, X, Y):
        """True iff Y is literally the atom Inv[X] (or X the atom Inv[Y]) handed out by the invert_matrix contract for
        exactly this matrix: then X*Y = I holds by the callee's contract and needs no rewriting"""
        for A, B in ((X, Y), (Y, X)):
            try:
                key, Af, occurring = MX.matrix_key(self, A)
            except Exception:  # noqa
                continue
            rec = self.inv_registry.get(key)
            if rec is None or not rec.get("registered"):
                continue
            Bf = B.fresh_copy()
            e = Bf.expr
            if e[0] != "atom" or e[1] != rec["inv"]:
                continue
            m = {}
            for a_, b_ in zip(Af.axes, Bf.axes):
                if a_.sorts() != b_.sorts():
                    break
                m.update(zip(a_.comps, b_.comps))
            else:
                row, col = Af.axes[-2].comps[0], Af.axes[-1].comps[0]
                want = tuple(m.get(v, v) for v in occurring) + (m[row], m[col])
                want2 = tuple(m.get(v, v) for v in occurring) + (m[col], m[row])
                if all(x is y for x, y in zip(e[2], want)) or all(x is y for x, y in zip(e[2], want2)):
                    return True
        return False

    def inv_congruence(self, X, Y, lemma="the inverse is a function of the matrix"):
        """ghost step: if the kernel proves X == Y then Inv[Y] := Inv[X] and LogDet[Y] := LogDet[X]"""
        ok = self.equal("hint/inverse-congruence", X, Y)
        if not ok:
            return False
        iX, lX = MX.intern_matrix(self, X.fresh_copy(), True)
        iY, lY = MX.intern_matrix(self, Y.fresh_copy(), True)
        for aX, aY, table in ((iX, iY, self.inv_rewrites), (lX, lY, self.ld_rules)):
            if aY.expr[0] == "atom" and (aX.expr[0] != "atom" or aX.expr[1] != aY.expr[1]):
                xf = aX.fresh_copy()
                m = {}
                for a_, b_ in zip(xf.axes, aY.axes):
                    m.update(zip(a_.comps, b_.comps))
                table.setdefault(aY.expr[1], []).append((aY.expr[2], K.subst(xf.expr, m)))
        self.hints_used.append(lemma)
        return True

    def ld_congruence(self, X, Y, lemma="det is a function of the matrix"):
        """ghost step: if the kernel proves X == Y then LogDet[X] := LogDet[Y] (also for LD atoms already created)"""
        ok = self.equal(f"hint/logdet-congruence", X, Y)
        if not ok:
            return False
        ldx = MX.logdet_of(X)               # LD atom (possibly an instance of an abstracted family) -- before the rule exists
        val = MX.logdet_of(Y)
        if ldx.expr[0] == "atom" and ldx.expr[1].startswith("LD"):
            vb = val.fresh_copy()
            bm = {}
            for va, ma in zip(vb.axes, ldx.axes):
                bm.update(zip(va.comps, ma.comps))
            self.ld_rules.setdefault(ldx.expr[1], []).append((ldx.expr[2], K.subst(vb.expr, bm)))
        MX.add_logdet_rule(self, X, val, lemma)
        self.hints_used.append(lemma)
        return True

    def have_inverse(self, X, E, lemma):
        """ghost step `have Inv[X] == E by multiply` (DESIGN §3.4): the kernel proves E·X == I without using the
        relation of the atom being eliminated, then Inv[X] is rewritten to E everywhere.  Returns True if proved."""
        t0 = time.time()
        X = X.fresh_copy()
        inv, _ = MX.intern_matrix(self, X.fresh_copy(), True)
        rec = None
        for r in self.inv_registry.values():
            if r.get("registered") and K.atoms_of(inv.expr) == {r["inv"]}:
                rec = r
        if rec is None:
            # Inv[X] is a partner atom or diagonal: nothing to eliminate, check the identity directly
            ok = self.equal(f"hint/{lemma}", S.einsum("...ij,...jk->...ik" if False else _mm(X), E, X), S.eye(X.shape[-1]), broadcast=True)
            return ok
        name = rec["inv"]
        rel = self.ctx.inv_rel[name]
        rel["disabled"] = True
        ok = False
        others = [n for n in self.ctx.inv_rel if n != name]
        tried = 0
        try:
            prod = S.einsum(_mm(X), E, X)
            eye = S._broadcast_op([S.zeros_like(prod), S.eye(X.shape[-1])], lambda es: es[1])
            okk, detail = self._equal(prod, eye)
            ok = okk
            if not ok:
                # search head orientations of the other Inv relations (each rewrite is a valid equality)
                for o in others:
                    R = self.ctx.inv_rel[o]
                    saved = R["head"]
                    for h in range(len(R["terms"])):
                        if h == saved:
                            continue
                        R["head"] = h
                        tried += 1
                        okk, detail = self._equal(prod, eye)
                        if okk:
                            ok = True
                            break
                    if ok:
                        break
                    R["head"] = saved
        finally:
            rel["disabled"] = False
        self.results.append(ClauseResult(f"hint/{lemma}", ok, "" if ok else "multiply check failed:\n" + detail,
                                         time.time() - t0, "kernel-hint"))
        if ok:
            Ef = E.fresh_copy()
            invf = inv.fresh_copy()
            m = {}
            for a, b in zip(invf.axes, Ef.axes):
                m.update(zip(a.comps, b.comps))
            pat = K.subst(invf.expr, m)          # ("atom", name, idx) in E's own index variables
            assert pat[0] == "atom" and pat[1] == name
            self.inv_rewrites.setdefault(name, []).append((pat[2], Ef.expr))
            self.hints_used.append(lemma)
        return ok

    # ---- LogDet rewriting (lemma hints)
    def _apply_ld_rules(self, e):
        for _ in range(8):
            names = K.atoms_of(e) & set(self.inv_rewrites)
            if not names:
                break
            fm = {}
            for n in names:
                def rw(idx, n=n):
                    for pat, val in self.inv_rewrites[n]:
                        mm = {}
                        if len(pat) == len(idx) and all(K._match_idx(p, y, mm) for p, y in zip(pat, idx)):
                            return K.rename_bound(K.subst(val, {k: v for k, v in mm.items() if isinstance(k, K.IV)}))
                    return ("atom", n + "", idx) if False else K.atom("@" + n, *idx)
                fm[n] = rw
            e = K.rewrite_atoms(e, fm)
            # atoms that matched no instance keep their name
            stuck = [a for a in K.atoms_of(e) if a.startswith("@")]
            if stuck:
                e = K.rewrite_atoms(e, {a: (lambda idx, a=a: K.atom(a[1:], *idx)) for a in stuck})
                break
        for _ in range(8):
            names = K.atoms_of(e) & set(self.ld_rules)
            if not names:
                return e
            fm = {}
            for n in names:
                def rw(idx, n=n):
                    for pat, val in self.ld_rules[n]:
                        mm = {}
                        if len(pat) == len(idx) and all(K._match_idx(p, y, mm) for p, y in zip(pat, idx)):
                            return K.rename_bound(K.subst(val, {k: v for k, v in mm.items() if isinstance(k, K.IV)}))
                    return K.atom("@" + n, *idx)
                fm[n] = rw
            e = K.rewrite_atoms(e, fm)
            stuck = [a for a in K.atoms_of(e) if a.startswith("@")]
            if stuck:
                e = K.rewrite_atoms(e, {a: (lambda idx, a=a: K.atom(a[1:], *idx)) for a in stuck})
                return e
        return e

    # ---- comparison
    def equal(self, name, code, spec, note="", broadcast=False):
        t0 = time.time()
        try:
            if code is None:
                raise S.ShapeError("code value is None")
            if broadcast:
                code = S._lift(code)
                spec = S._broadcast_op([S.zeros_like(code), spec], lambda es: es[1])
            ok, detail = self._equal(code, spec)
        except S.ShapeError as ex:
            ok, detail = False, f"shape: {ex}"
        r = ClauseResult(name, ok, detail, time.time() - t0, "kernel")
        self.results.append(r)
        return ok

    def _equal(self, code, spec):
        code, spec = S._lift(code), S._lift(spec)
        if code.ndim != spec.ndim:
            return False, f"rank mismatch: code {code.shape} vs spec {spec.shape}"
        for n, (a, b) in enumerate(zip(code.axes, spec.axes)):
            if not S._same_struct(a, b):
                return False, f"layout mismatch on axis {n}: code {a} vs spec {b} (code {code.shape}, spec {spec.shape})"
        code, spec = code.fresh_copy(), spec.fresh_copy()
        m = {}
        for a, b in zip(code.axes, spec.axes):
            if isinstance(a, S.DSum):
                for p, q in zip(a.parts, b.parts):
                    m.update(zip(q.comps, p.comps))
            else:
                m.update(zip(b.comps, a.comps))
        bad = []
        for key in code.keys():
            e = K.sub(code.block(key), K.subst(spec.block(key), m))
            e = self._apply_ld_rules(e)
            res = K.residual(e, self.ctx)
            if res:
                bad.append((key, res))
        if bad:
            txt = []
            for key, res in bad[:3]:
                txt.append(f"block {key}: residual with {len(res)} monomials\n" + K.show(res, self.ctx, limit=12))
            return False, "\n".join(txt)
        return True, ""

    def check(self, name, cond, detail=""):
        self.results.append(ClauseResult(name, bool(cond), detail, 0.0, "structural"))
        return bool(cond)

    def raises(self, name, exc_types, thunk):
        """clause: the real code raises one of exc_types (documented refusal)"""
        t0 = time.time()
        try:
            thunk()
        except exc_types as ex:
            self.results.append(ClauseResult(name, True, f"raised {type(ex).__name__}", time.time() - t0, "raise"))
            return True
        self.results.append(ClauseResult(name, False, "did not raise", time.time() - t0, "raise"))
        return False


def _mm(X):
    n = X.ndim
    letters = "abcdefgh"[: n - 2]
    return f"{letters}ij,{letters}jk->{letters}ik"


class NumWorld:
    symbolic = False

    def __init__(self, sizes, seed=0, order=None):
        import numpy as np
        import jax
        jax.config.update("jax_enable_x64", True)
        import jax.numpy as jnp
        self.np = np
        self.xp = jnp
        self.sizes = dict(sizes)
        self.rng = np.random.default_rng(seed)
        self.seed = seed
        self.results = []
        self.inputs = {}
        self.assumptions = set()
        self.tol = 1e-8

    def _shape(self, dims):
        out = []
        for d in dims:
            if isinstance(d, str):
                out.append(self.sizes[d])
            else:
                out.append(int(d))
        return tuple(out)

    def arr(self, name, *dims, sym=None):
        a = self.rng.standard_normal(self._shape(dims))
        if sym:
            a = 0.5 * (a + self.np.swapaxes(a, -1, -2))
        self.inputs[name] = a
        return self.xp.asarray(a)

    def pos(self, name, *dims):
        a = self.rng.uniform(0.2, 1.5, self._shape(dims))
        self.inputs[name] = a
        return self.xp.asarray(a)

    def symm(self, name, batch, D):
        """symmetric positive semi-definite matrix [batch..., D, D]"""
        sb = self._shape(batch)
        Dn = self.sizes[D] if isinstance(D, str) else int(D)
        a = self._rand_spd(sb, Dn)
        self.inputs[name] = a
        return self.xp.asarray(a)

    def _rand_spd(self, shape_batch, D):
        np = self.np
        A = self.rng.standard_normal(shape_batch + (D, D))
        Sg = A @ np.swapaxes(A, -1, -2) / D + 0.5 * np.eye(D)
        return Sg

    def spd(self, name, batch, D):
        np = self.np
        sb = self._shape(batch)
        Dn = self.sizes[D] if isinstance(D, str) else int(D)
        Sg = self._rand_spd(sb, Dn)
        L = np.linalg.inv(Sg)
        L = 0.5 * (L + np.swapaxes(L, -1, -2))
        ld = np.linalg.slogdet(Sg)[1]
        self.inputs[f"S{name}"] = Sg
        return dict(S=self.xp.asarray(Sg), L=self.xp.asarray(L), ld=self.xp.asarray(ld))

    def diag_spd(self, name, batch, D):
        np = self.np
        sb = self._shape(batch)
        Dn = self.sizes[D] if isinstance(D, str) else int(D)
        s = self.rng.uniform(0.3, 2.0, sb + (Dn,))
        self.inputs[f"s{name}"] = s
        eye = np.eye(Dn)
        return dict(S=self.xp.asarray(s[..., None] * eye), L=self.xp.asarray((1.0 / s)[..., None] * eye),
                    ld=self.xp.asarray(np.sum(np.log(s), axis=-1)), s=self.xp.asarray(s))

    def Phi(self, x):
        from jax.scipy.stats import norm
        return norm.cdf(x)

    def phi(self, x):
        from jax.scipy.stats import norm
        return norm.pdf(x)

    def step(self, x):
        return (self.xp.asarray(x) >= 0) * 1.0

    def inf(self):
        return self.xp.inf

    def vmap(self, f, in_axes=0):
        import jax
        return jax.vmap(f, in_axes=in_axes)

    def random_key(self, name="key"):
        import jax
        return jax.random.PRNGKey(abs(hash(name)) % (2 ** 31))

    def random_normal(self, key, shape):
        import jax
        return jax.random.normal(key, tuple(int(s) for s in shape))

    def cholesky(self, A):
        return self.xp.linalg.cholesky(A)

    def block_index(self, part_sorts, which):
        np = self.np
        sizes = [self.sizes[p] if isinstance(p, str) else int(p) for p in part_sorts]
        offs = np.concatenate([[0], np.cumsum(sizes)])
        return self.xp.asarray(np.concatenate([np.arange(offs[k], offs[k + 1]) for k in which]))

    def partition(self, sort, parts, ascending=()):
        np = self.np
        n = sum(self.sizes[ps] for _, ps in parts)
        self.sizes[sort] = n
        perm = self.rng.permutation(n)
        out, pos = [], 0
        for k, (name, ps) in enumerate(parts):
            idx = perm[pos:pos + self.sizes[ps]]
            pos += self.sizes[ps]
            if name in ascending:
                idx = np.sort(idx)
            self.inputs[name] = idx
            out.append(self.xp.asarray(idx))
        return out

    def index_map2(self, n1, n2, new1, new2, src1=None, src2=None):
        np = self.np
        r1 = self.rng.integers(0, self.sizes[src1], size=self.sizes[new1])
        r2 = self.rng.integers(0, self.sizes[src2], size=self.sizes[new2])
        both = (r1[:, None] * self.sizes[src2] + r2[None, :]).reshape(-1)
        # negative entries wrap (contract of jnp.take): use them for about half of the entries
        neg = self.rng.random(both.shape) < 0.5
        both = np.where(neg, both - self.sizes[src1] * self.sizes[src2], both)
        self.inputs[n1], self.inputs[n2] = r1, r2
        return self.xp.asarray(both), self.xp.asarray(r1), self.xp.asarray(r2)

    def block_gaussian(self, tag, batch, parts):
        np = self.np
        sb = self._shape(batch)
        n = sum(self.sizes[p] if isinstance(p, str) else int(p) for p in parts)
        Sg = self._rand_spd(sb, n)
        L = np.linalg.inv(Sg)
        L = 0.5 * (L + np.swapaxes(L, -1, -2))
        mu = self.rng.standard_normal(sb + (n,))
        self.inputs[f"S{tag}"] = Sg
        self.inputs[f"m{tag}"] = mu
        return dict(mu=self.xp.asarray(mu), S=self.xp.asarray(Sg), L=self.xp.asarray(L), ld=self.xp.asarray(np.linalg.slogdet(Sg)[1]))

    def index_map(self, name, new_sort, src_sort=None, n_src=1):
        n_new = self.sizes[new_sort]
        n_src_size = self.sizes[src_sort]
        idx = self.rng.integers(-n_src_size, n_src_size, size=n_new)
        self.inputs[name] = idx
        return self.xp.asarray(idx)

    def size(self, sort):
        return self.sizes[sort]

    def pick(self, name, src_sort=None):
        k = int(self.rng.integers(0, self.sizes[src_sort])) if src_sort else 0
        self.inputs[name] = k
        return self.xp.asarray([k])

    def inv(self, A):
        return self.xp.linalg.inv(A)

    def logdet(self, A):
        return self.xp.linalg.slogdet(A)[1]

    def log2pi(self):
        return math.log(2.0 * math.pi)

    def ld_rule(self, matrix, value, lemma):
        pass

    def is_contract_inverse(self, X, Y):
        return False

    def inv_congruence(self, X, Y, lemma=""):
        return self.equal("hint/inverse-congruence", X, Y)

    def ld_congruence(self, X, Y, lemma=""):
        return self.equal("hint/logdet-congruence", X, Y)

    def kernel_option(self, name, value=True):
        pass

    def holds(self, name, b):
        ok = bool(self.np.all(self.np.asarray(b)))
        self.results.append(ClauseResult(name, ok, "" if ok else f"values {_tolist(b)}", 0.0, "numeric"))
        return ok

    def have_inverse(self, X, E, lemma):
        np = self.np
        prod = np.asarray(E) @ np.asarray(X)
        return self.equal(f"hint/{lemma}", prod, np.broadcast_to(np.eye(prod.shape[-1]), prod.shape))

    def equal(self, name, code, spec, note="", broadcast=False):
        np = self.np
        t0 = time.time()
        try:
            c, s = np.asarray(code, dtype=float), np.asarray(spec, dtype=float)
            if broadcast:
                s = np.broadcast_to(s, c.shape)
            if c.shape != s.shape:
                ok, detail = False, f"shape mismatch: code {c.shape} vs spec {s.shape}"
            else:
                scale = max(1.0, float(np.max(np.abs(s))) if s.size else 1.0)
                err = float(np.max(np.abs(c - s))) if s.size else 0.0
                if not np.all(np.isfinite(c)):
                    ok, detail = False, "code value is not finite"
                else:
                    ok = err <= self.tol * scale
                    detail = f"max abs err {err:.3e} (scale {scale:.3e})"
        except Exception as ex:  # noqa
            ok, detail = False, f"comparison failed: {type(ex).__name__}: {ex}"
        r = ClauseResult(name, ok, detail, time.time() - t0, "numeric",
                         extra=dict(code=_tolist(code), spec=_tolist(spec)) if not ok else None)
        self.results.append(r)
        return ok

    def check(self, name, cond, detail=""):
        self.results.append(ClauseResult(name, bool(cond), detail, 0.0, "structural"))
        return bool(cond)

    def raises(self, name, exc_types, thunk):
        t0 = time.time()
        try:
            thunk()
        except exc_types as ex:
            self.results.append(ClauseResult(name, True, f"raised {type(ex).__name__}", time.time() - t0, "raise"))
            return True
        self.results.append(ClauseResult(name, False, "did not raise", time.time() - t0, "raise"))
        return False


def _tolist(a):
    try:
        import numpy as np
        a = np.asarray(a, dtype=float)
        if a.size > 64:
            return dict(shape=list(a.shape), head=a.ravel()[:64].tolist())
        return a.tolist()
    except Exception:  # noqa
        return repr(a)[:500]
