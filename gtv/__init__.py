"""GTV: contract-based deductive verification of gaussian-toolbox (see /verif/DESIGN.md)."""
