"""Runs the Lean-checked lemma library (lean/GtvLemmas.lean) once per content hash; scans for sorry/axiom/admit."""
import hashlib
import os
import re
import subprocess
import time

VERIF = os.path.dirname(os.path.dirname(os.path.abspath(__file__)))
LEANFILE = os.path.join(VERIF, "lean", "GtvLemmas.lean")


def status(force=False):
    """returns dict(ok, wall_s, sha, theorems, cached, detail)"""
    with open(LEANFILE, "rb") as fh:
        src = fh.read()
    sha = hashlib.sha256(src).hexdigest()
    text = src.decode()
    bad = [ln for ln in text.splitlines() if re.search(r"\b(sorry|admit|axiom|native_decide)\b", ln) and not ln.strip().startswith("#print axioms")]
    theorems = re.findall(r"^theorem\s+(\S+)", text, flags=re.M)
    cache_dir = os.path.join(VERIF, ".cache")
    os.makedirs(cache_dir, exist_ok=True)
    cache = os.path.join(cache_dir, f"lean_ok.{sha}")
    if bad:
        return dict(ok=False, wall_s=0.0, sha=sha, theorems=theorems, cached=False, detail="forbidden token: " + bad[0])
    if os.path.exists(cache) and not force:
        with open(cache) as fh:
            wall = float(fh.read().strip() or 0)
        return dict(ok=True, wall_s=wall, sha=sha, theorems=theorems, cached=True, detail="")
    # serialise concurrent first runs
    lock = os.path.join(cache_dir, "lean.lock")
    import fcntl
    with open(lock, "w") as lk:
        fcntl.flock(lk, fcntl.LOCK_EX)
        if os.path.exists(cache) and not force:
            with open(cache) as fh:
                return dict(ok=True, wall_s=float(fh.read().strip() or 0), sha=sha, theorems=theorems, cached=True, detail="")
        t0 = time.time()
        try:
            p = subprocess.run(["lean", LEANFILE], capture_output=True, text=True, timeout=900, cwd=os.path.join(VERIF, "lean"))
            ok = p.returncode == 0 and "error" not in p.stdout.lower()
            detail = (p.stdout + p.stderr)[-2000:]
            axioms_ok = all(("propext" in ln or "Classical.choice" in ln or "Quot.sound" in ln or "does not depend" in ln)
                            for ln in p.stdout.splitlines() if "depends on axioms" in ln)
            ok = ok and axioms_ok
        except Exception as ex:  # noqa
            ok, detail = False, f"{type(ex).__name__}: {ex}"
        wall = time.time() - t0
        if ok:
            with open(cache, "w") as fh:
                fh.write(f"{wall:.2f}")
    return dict(ok=ok, wall_s=wall, sha=sha, theorems=theorems, cached=False, detail="" if ok else detail)
