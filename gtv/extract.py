"""Extraction (DESIGN §2.1): import the REAL gaussian_toolbox from /repo's working tree and rebind, from outside
and only in this process, the module-level names through which it reaches the array library."""
import contextlib
import hashlib
import importlib
import os
import sys
import types
import warnings

REPO = os.environ.get("GTV_REPO", "/repo")
_MODS = {}
_ORIG = {}


def load():
    """import the real modules from REPO (once); returns dict name -> module"""
    if _MODS:
        return _MODS
    if REPO not in sys.path:
        sys.path.insert(0, REPO)
    warnings.filterwarnings("ignore", category=SyntaxWarning)
    warnings.filterwarnings("ignore", category=DeprecationWarning)
    import jax
    jax.config.update("jax_enable_x64", True)
    names = ["utils.linalg", "utils.dataclass", "factor", "measure", "pdf", "conditional",
             "approximate_conditional", "experimental.misc", "experimental.truncated_measure"]
    for n in names:
        try:
            m = importlib.import_module("gaussian_toolbox." + n)
        except Exception as ex:  # noqa
            _MODS[n] = ex
            continue
        f = os.path.realpath(m.__file__)
        if not f.startswith(os.path.realpath(REPO) + os.sep):
            raise RuntimeError(f"gaussian_toolbox.{n} was imported from {f}, not from {REPO}")
        _MODS[n] = m
    return _MODS


def source_hashes():
    out = {}
    for n, m in load().items():
        if isinstance(m, Exception):
            out[n] = f"import failed: {m}"
            continue
        with open(m.__file__, "rb") as fh:
            out[os.path.relpath(m.__file__, REPO)] = hashlib.sha256(fh.read()).hexdigest()
    return out


def code_origin_ok(fn):
    co = getattr(fn, "__code__", None)
    return co is not None and os.path.realpath(co.co_filename).startswith(os.path.realpath(REPO) + os.sep)


class _Stub(types.SimpleNamespace):
    pass


@contextlib.contextmanager
def symbolic(world, replace_invert=True, extra=None):
    """run the real code on the shim: rebinding of jnp / jsc / lax / jax / linalg helpers"""
    from . import shim as S
    from . import matrices as MX
    mods = load()
    S.set_world(world)
    saved = []

    def setg(mod, name, val):
        if isinstance(mod, Exception):
            return
        had = name in mod.__dict__
        saved.append((mod, name, mod.__dict__.get(name), had))
        mod.__dict__[name] = val

    jax_stub = _Stub(numpy=S, random=_Stub(normal=_random_normal), lax=_lax_stub(), scipy=_Stub())
    la = mods.get("utils.linalg")
    if la is not None and not isinstance(la, Exception):
        setg(la, "jsc", _Stub(linalg=_Stub(cho_factor=_cho_factor, cho_solve=_cho_solve)))
    for n, m in mods.items():
        if isinstance(m, Exception):
            continue
        if "jnp" in m.__dict__:
            setg(m, "jnp", S)
        if "jax" in m.__dict__ and n != "utils.dataclass":
            setg(m, "jax", jax_stub)
        if "lax" in m.__dict__:
            setg(m, "lax", _lax_stub())
        if replace_invert and n != "utils.linalg":
            if "invert_matrix" in m.__dict__:
                setg(m, "invert_matrix", MX.invert_matrix_contract)
            if "linalg" in m.__dict__ and isinstance(m.__dict__["linalg"], types.ModuleType):
                setg(m, "linalg", _Stub(invert_matrix=MX.invert_matrix_contract,
                                        invert_diagonal=mods["utils.linalg"].invert_diagonal))
    tm = mods.get("experimental.truncated_measure")
    if tm is not None and not isinstance(tm, Exception):
        setg(tm, "scan", _scan_unrolled)
        setg(tm, "normal_pdf", S._unary("phi"))
        setg(tm, "normal_cdf", S._unary("Phi"))
        setg(tm, "binom", _binom_contract)
    ms = mods.get("experimental.misc")
    if ms is not None and not isinstance(ms, Exception):
        setg(ms, "norm", _Stub(pdf=S._unary("phi"), cdf=S._unary("Phi"), logcdf=lambda x: S.log(S._unary("Phi")(x))))
    ac = mods.get("approximate_conditional")
    if ac is not None and not isinstance(ac, Exception):
        setg(ac, "vmap", S.vmap)
        setg(ac, "lax", _Stub(stop_gradient=lambda x: x, while_loop=S.while_loop_contract))
        for nm in ("normal_pdf", "normal_cdf"):
            if nm in ac.__dict__:
                setg(ac, nm, S._unary("phi" if nm.endswith("pdf") else "Phi"))
    for (mod, name, val) in (extra or []):
        setg(mod, name, val)
    try:
        yield world
    finally:
        for mod, name, val, had in reversed(saved):
            if had:
                mod.__dict__[name] = val
            else:
                mod.__dict__.pop(name, None)
        S.set_world(None)


def _random_normal(key, shape):
    from . import shim as S
    S.W.count("random.normal")
    name = getattr(key, "name", "key")
    return S.atom_array(f"z[{name}]", *shape)


def _lax_stub():
    from . import shim as S

    def stop_gradient(x):
        return x
    return _Stub(stop_gradient=stop_gradient)


def _scan_unrolled(f, init, xs, length=None):
    """lax.scan with a literal trip count: unrolled (DESIGN §2.1)"""
    from . import shim as S
    S.W.count("scan(unrolled)")
    if not isinstance(xs, S.Stack):
        raise S.ShimUnsupported("lax.scan over a symbolic range")
    carry, ys = init, []
    for k in xs.rows:
        carry, y = f(carry, k)
        ys.append(y)
    return carry, S.Stack(ys)


def _binom_contract(k, i):
    """contract of experimental.misc.binom: the exact binomial coefficient (body checked by bounded enumeration)"""
    import math
    from . import shim as S

    def one(kk, ii):
        kk, ii = int(kk), int(ii)
        return math.comb(kk, ii) if 0 <= ii <= kk else 0
    if isinstance(i, S.Stack):
        return S.Stack([one(k, r) for r in i.rows])
    return one(k, i)


def _cho_factor(A, lower=False):
    """assumed contract of jax.scipy.linalg.cho_factor for symmetric positive definite A: a triangular factor C with
    C'C = A (upper, the default) -- represented by the Cholesky atom; returns (C, lower)"""
    from . import shim as S, matrices as MX
    S.W.count("cho_factor")
    return (MX.cholesky_contract(A), lower)


def _cho_solve(c_and_lower, B):
    """assumed contract of cho_solve: the solution X of A X = B for the factorised A (= Inv[A] B)"""
    from . import shim as S, matrices as MX, kernel as K
    S.W.count("cho_solve")
    chol = c_and_lower[0]
    reg = S.W.__dict__.get("chol_registry", {})
    A = None
    for rec in reg.values():
        if rec["name"] in K.atoms_of(chol.expr):
            A = rec["X"]
    if A is None:
        raise S.ShimUnsupported("cho_solve with an unknown factor")
    Ainv = MX.inverse_of(A)
    n = B.ndim
    letters = "abcdefgh"[: n - 2]
    return S.einsum(f"{letters}ij,{letters}jk->{letters}ik", Ainv, B)
