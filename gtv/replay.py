"""./check <prop> --replay <file>: re-run a recorded counterexample against the real code under real jax."""
import importlib
import json
import os
from . import runner


def run(prop, path):
    if not os.path.isabs(path):
        path = os.path.join(runner.VERIF, path)
    with open(path) as fh:
        rec = json.load(fh)
    print(f"replay of obligation {rec['obligation']} clause {rec['clause']} ({rec['kind']})")
    print("verifier output:\n" + (rec.get("verifier_output") or ""))
    if rec["kind"] != "failing-input":
        print("no failing input was recorded for this obligation (no-failing-input-found)")
        return 1
    mod = importlib.import_module(f"gtv.props.{prop}")
    ob = [o for o in list(mod.REG.obs) + runner.unit_variants(mod.REG.obs) if o.id == rec["obligation"]][0]
    res = runner.run_numeric(ob, rec["sizes"], rec["num_seed"])
    res["clauses"] = [c for c in res["clauses"] if ob.keeps(c["clause"])]
    bad = [c for c in res["clauses"] if not c["ok"]]
    if res["status"] != "ok":
        print("real code raised:\n" + res["error"])
        return 1
    for c in res["clauses"]:
        print(f"  clause {c['clause']}: {'ok' if c['ok'] else 'FAILS'} {c['detail']}")
    return 1 if bad else 0
