"""Constructor contracts of every conditional class: whichever of (Sigma, Lambda, ln_det_Sigma) the caller supplies, the
constructed object exposes Sigma, Lambda = Sigma^-1 and ln_det_Sigma = ln det Sigma (class invariant wf_conditional).
Every property whose statement reads the conditional's precision or log-determinant (C07 joint, C10 set_y, C12 condition_on_x,
C13 entropies / mutual information, C14 expected log-likelihood) depends on it, so the family is included there.
(Added after the seeded change C13-diagcond-lambda-only-lndet was missed: all other obligations build their conditionals with
all three arguments supplied, which bypasses the derivations inside __post_init__.)"""
from ..runner import Registry
from .. import spec as SP
from .wf import wf_conditional

REG = Registry("CTOR")
CTORS = ["Sigma", "Lambda", "Sigma+Lambda", "Sigma+Lambda+ld"]


def _build(w, cls, g, ctor, kw):
    if ctor == "Sigma":
        return cls(Sigma=g["S"], **kw)
    if ctor == "Lambda":
        return cls(Lambda=g["L"], **kw)
    if ctor == "Sigma+Lambda":
        return cls(Sigma=g["S"], Lambda=g["L"], **kw)
    return cls(Sigma=g["S"], Lambda=g["L"], ln_det_Sigma=g["ld"], **kw)


def _clauses(w, c, g):
    w.equal("ctor/Sigma", c.Sigma, g["S"])
    w.equal("ctor/Lambda", c.Lambda, g["L"])
    w.equal("ctor/ln_det_Sigma", c.ln_det_Sigma, g["ld"])
    wf_conditional(w, "ctor", c)


def _mk_linear(kind, ctor, R):
    def ob(w):
        C = SP.mods()["conditional"]
        diag = kind in ("diag", "identity-diag")
        g = w.diag_spd("c", SP.batch(R), "Dy") if diag else w.spd("c", SP.batch(R), "Dy")
        if kind in ("full", "diag"):
            kw = dict(M=w.arr("Mc", *SP.batch(R), "Dy", "Dx"), b=w.arr("bc", *SP.batch(R), "Dy"))
        else:
            kw = {}
        cls = getattr(C, SP.COND_CLS[kind])
        c = _build(w, cls, g, ctor, kw)                                   # REAL constructor
        _clauses(w, c, g)
        if kind in ("full", "diag"):
            w.equal("ctor/M", c.M, kw["M"])
            w.equal("ctor/b", c.b, kw["b"])
            # b omitted: documented default zero offset
            kw2 = dict(M=kw["M"])
            c2 = _build(w, cls, g, ctor, kw2)                             # REAL
            w.equal("ctor/default-b=0", c2.b, 0.0 * kw["b"])
        w.raises("ctor/neither-Sigma-nor-Lambda-refused", (RuntimeError, ValueError, TypeError),
                 lambda: cls(**{k: v for k, v in kw.items()}))
    return ob


def _mk_nn(ctor):
    def ob(w):
        C = SP.mods()["conditional"]
        xp = w.xp
        g = w.spd("c", [1], "Dy")
        dy, dx = w.size("Dy"), w.size("Dx")

        def control_func(uin):
            return xp.zeros((uin.shape[0], dy * dx + dy))
        c = _build(w, C.NNControlGaussianConditional, g, ctor,
                   dict(num_cond_dim=dx, num_control_dim=w.size("Du"), control_func=control_func))   # REAL
        _clauses(w, c, g)
        g2 = w.spd("c2", ["R"], "Dy")
        w.raises("ctor/R>1-refused", (NotImplementedError,), lambda: C.NNControlGaussianConditional(
            Sigma=g2["S"], num_cond_dim=dx, num_control_dim=w.size("Du"), control_func=control_func))
    return ob


def _mk_feature(kind, ctor):
    def ob(w):
        A = SP.mods()["approximate_conditional"]
        xp = w.xp
        g = w.spd("c", [1], "Dy")
        M = xp.concatenate([w.arr("Mx", 1, "Dy", "Dx"), w.arr("Mk", 1, "Dy", "Dk")], axis=2)
        b = w.arr("bc", 1, "Dy")
        if kind == "rbf":
            kw = dict(M=M, b=b, mu=w.arr("sk", "Dk", "Dx"), length_scale=w.pos("lk", "Dk", "Dx"))
            cls = A.LRBFGaussianConditional
        else:
            W = xp.concatenate([w.arr("w0", "Dk")[:, None], w.arr("wk", "Dk", "Dx")], axis=1)
            kw = dict(M=M, b=b, W=W)
            cls = A.LSEMGaussianConditional
        c = _build(w, cls, g, ctor, kw)                                    # REAL
        _clauses(w, c, g)
        kw2 = dict(kw)
        kw2["b"] = None
        c2 = _build(w, cls, g, ctor, kw2)                                  # REAL: omitted offset
        w.equal("ctor/default-b=0", c2.b, 0.0 * b)
        w.raises("ctor/neither-Sigma-nor-Lambda-refused", (RuntimeError,), lambda: cls(**kw))
    return ob


def _mk_hetero(kind):
    """heteroscedastic classes take A (not Sigma): their own consistency (Sigma(x), Lambda(x), ln det) is C17(a)"""
    return None


def _register():
    for kind in ("full", "diag", "identity", "identity-diag"):
        cls = SP.COND_CLS[kind]
        for ctor in CTORS:
            for R in ("R", 1):
                sorts = (["R"] if R != 1 else []) + ["Dy"] + (["Dx"] if kind in ("full", "diag") else [])
                REG.ob(f"cond-ctor/{cls}/{ctor}/R={R}", sorts=sorts, funcs=[f"conditional.{cls}.__post_init__"])(_mk_linear(kind, ctor, R))
    # NNControlGaussianConditional documents Sigma as its only covariance argument (Lambda-only is outside its contract)
    REG.ob("cond-ctor/NNControlGaussianConditional/Sigma", sorts=["R", "Dy", "Dx", "Du"],
           funcs=["conditional.NNControlGaussianConditional.__post_init__"])(_mk_nn("Sigma"))
    for ctor in CTORS:
        for kind, cls in (("rbf", "LRBFGaussianConditional"), ("lsem", "LSEMGaussianConditional")):
            REG.ob(f"cond-ctor/{cls}/{ctor}", sorts=["Dy", "Dx", "Dk"],
                   funcs=[f"approximate_conditional.{cls}.__post_init__", f"approximate_conditional.{cls}.update_phi"])(_mk_feature(kind, ctor))


_register()
