"""C12: batches are independent components; slicing commutes with every operation (DESIGN §6-C12).
rho is an ARBITRARY index map (repeats, permutations, negative entries that wrap = assumed contract of jnp.take)."""
from ..runner import Registry
from .. import spec as SP
from .common import gen_factor, gen_measure, view_lnf, FACTOR_CLS
from .wf import wf_measure, wf_conditional
from .C08 import LAYOUTS

REG = Registry("C12")
TAKE = ["jnp.take contract: out[k] = a[idx[k] mod n] for -n <= idx[k] < n"]


def _mk_slice_factor(kind, R):
    def ob(w):
        xp = w.xp
        if kind == "diag-pdf":
            from .common import pdf_view
            f, par_ = SP.gen_pdf(w, "f", R, "D", diag=True)
            fv = pdf_view(w, par_, "D")
        else:
            f, fv = gen_factor(w, kind, "f", R, "D")
        rho = w.index_map("rho", "Rn", R if R != 1 else None) if R != 1 else w.pick("r0")
        x = w.arr("x", "N", "D")
        from .common import fresh_result, params_unchanged, snapshot as _snap
        sf_ = _snap(f)
        g = f.slice(rho)                                                 # REAL
        fresh_result(w, "frame/result-is-a-new-object", g, f)
        params_unchanged(w, "frame/operand-unchanged", f, sf_, ("Lambda", "nu", "ln_beta", "Sigma", "mu", "ln_det_Sigma", "lnZ"))
        full = view_lnf(w, fv, x, R)
        w.equal("value", g.evaluate_ln(x), xp.take(full, rho, axis=0))
        w.check("class-preserved", type(g) is type(f) or kind in ("pdf",), f"{type(f).__name__} -> {type(g).__name__}")
        if kind in ("measure", "measure+cache", "diag-measure", "diag-measure+cache", "pdf", "diag-pdf"):
            wf_measure(w, "result", g, is_pdf=kind in ("pdf", "diag-pdf"))
    return ob


def _mk_product_layout(ukind, fkind, op):
    def ob(w):
        xp = w.xp
        u, uv = gen_factor(w, ukind, "u", "R1", "D")
        x = w.arr("x", "N", "D")
        if op == "multiply":
            f, fv = gen_factor(w, fkind, "f", "R2", "D")
            both, r1, r2 = w.index_map2("rho1", "rho2", "Rn1", "Rn2", "R1", "R2")
            lhs = u.multiply(f).slice(both)                              # REAL: slice the product (layout i*R2+j)
            rhs = u.slice(r1).multiply(f.slice(r2))                      # REAL: product of the slices
        else:
            f, fv = gen_factor(w, fkind, "f", "R1", "D")
            rho = w.index_map("rho", "Rn", "R1")
            lhs = u.hadamard(f).slice(rho)
            rhs = u.slice(rho).hadamard(f.slice(rho))
        w.equal("slice∘op=op∘slice", lhs.evaluate_ln(x), rhs.evaluate_ln(x))
    return ob


def _mk_hadamard_broadcast(fkind, which):
    """hadamard with a single-component operand broadcast: the result must be a batch one can slice"""
    def ob(w):
        xp = w.xp
        R1, R2 = (1, "R") if which == "measure-single" else ("R", 1)
        u, uv = gen_factor(w, "measure", "u", R1, "D")
        f, fv = gen_factor(w, fkind, "f", R2, "D")
        rho = w.index_map("rho", "Rn", "R")
        x = w.arr("x", "N", "D")
        res = u.hadamard(f)                                              # REAL
        full = view_lnf(w, uv, x, R1) + view_lnf(w, fv, x, R2)
        w.equal("slice-of-result", res.slice(rho).evaluate_ln(x), xp.take(full, rho, axis=0))
        wf_measure(w, "result", res, logdet=False)
    return ob


def _mk_integrals(key, cache):
    def ob(w):
        xp = w.xp
        u, uv = gen_measure(w, "u", "R", "D", cache=cache)
        rho = w.index_map("rho", "Rn", "R")
        kw, kws = {}, {}
        if key in ("(Ax+a)", "(Ax+a)'(Bx+b)", "(Ax+a)(Bx+b)'"):
            A, a = w.arr("Am", "R", "K", "D"), w.arr("av", "R", "K")
            kw.update(A_mat=A, a_vec=a)
            kws.update(A_mat=xp.take(A, rho, axis=0), a_vec=xp.take(a, rho, axis=0))
        if key in ("(Ax+a)'(Bx+b)",):
            B = w.arr("Bm", "K", "D")            # shared coefficient matrix, per-component offset
            bb = w.arr("bbv", "R", "K")
            kw.update(B_mat=B, b_vec=bb)
            kws.update(B_mat=B, b_vec=xp.take(bb, rho, axis=0))
        if key == "xb'xx'":
            b = w.arr("bv", "R", "D")
            kw.update(b_vec=b)
            kws.update(b_vec=xp.take(b, rho, axis=0))
        w.equal("slice∘integrate=integrate∘slice", u.slice(rho).integrate(key, **kws), xp.take(u.integrate(key, **kw), rho, axis=0))
    return ob


def _mk_cond_on_x(kind):
    def ob(w):
        xp = w.xp
        Dy = "Dy"
        Dx = "Dy" if kind.startswith("identity") else "Dx"
        c, par = SP.gen_cond(w, "c", "R", Dy, Dx, kind)
        rho = w.index_map("rho", "Rn", "R")
        x = w.arr("x", "N", Dx)
        y = w.arr("y", "Ny", Dy)
        from .common import fresh_result, params_unchanged, snapshot as _snap
        sc_ = _snap(c)
        cs = c.slice(rho)                                                # REAL
        fresh_result(w, "frame/result-is-a-new-object", cs, c)
        params_unchanged(w, "frame/operand-unchanged", c, sc_, ("M", "b", "Sigma", "Lambda", "ln_det_Sigma"))
        wf_conditional(w, "sliced", cs)
        full = c.condition_on_x(x)                                       # REAL, layout r*N+n
        part = cs(x)                                                     # REAL: __call__ == condition_on_x
        w.equal("__call__=condition_on_x/mu", c(x).mu, full.mu)
        w.equal("__call__=condition_on_x/Sigma", c(x).Sigma, full.Sigma)
        n, rn = w.size("N"), w.size("Rn")
        lhs = xp.reshape(part.evaluate_ln(y), (rn, n, w.size("Ny")))
        rhs = xp.take(xp.reshape(full.evaluate_ln(y), (w.size("R"), n, w.size("Ny"))), rho, axis=0)
        w.equal("slice∘condition_on_x=condition_on_x∘slice", lhs, rhs)
        wf_measure(w, "conditioned", part, is_pdf=True)
    return ob


def _mk_transform(kind, which, Rc, Rx):
    def ob(w):
        xp = w.xp
        Dy = "Dy"
        Dx = "Dy" if kind.startswith("identity") else "Dx"
        h = SP.gen_cond_handle(w, kind, "c", Rc, Dy, Dx)
        p_x, px = SP.gen_pdf(w, "x", Rx, Dx)
        rho = w.index_map("rho", "Rn", Rc if Rc != 1 else Rx)
        name = {"joint": "affine_joint_transformation", "marginal": "affine_marginal_transformation",
                "conditional": "affine_conditional_transformation"}[which]
        full = h.call(name, p_x)                                         # REAL
        if Rc == 1:
            part = h.call(name, p_x.slice(rho))                          # slice the batched operand first
        else:
            hs = SP.CondHandle(w, kind, h.obj.slice(rho), None)
            part = hs.call(name, p_x)
        fs = full.slice(rho)                                             # REAL slice of the result
        if which == "conditional":
            for fld in ("M", "b", "Sigma", "Lambda", "ln_det_Sigma"):
                w.equal(f"slice∘op=op∘slice/{fld}", getattr(part, fld), getattr(fs, fld))
        else:
            for fld in ("mu", "Sigma", "Lambda", "ln_det_Sigma", "nu", "ln_beta"):
                w.equal(f"slice∘op=op∘slice/{fld}", getattr(part, fld), getattr(fs, fld))
    return ob


def _mk_info(Rp, Rq):
    def ob(w):
        xp = w.xp
        p, pp = SP.gen_pdf(w, "p", "R", "D")
        rho = w.index_map("rho", "Rn", "R")
        w.equal("entropy", p.slice(rho).entropy(), xp.take(p.entropy(), rho, axis=0))
        q, qq = SP.gen_pdf(w, "q", Rq, "D")
        qs = q.slice(rho) if Rq != 1 else q
        w.equal("kl_divergence", p.slice(rho).kl_divergence(qs), xp.take(p.kl_divergence(q), rho, axis=0))
    return ob


def _mk_update(diag):
    """update(idx, d) replaces exactly the addressed components (scatter: selector model, DESIGN §6-C04)"""
    def ob(w):
        xp = w.xp
        p, pp = SP.gen_pdf(w, "p", "R", "D", diag=diag)
        d, dd = SP.gen_pdf(w, "d", "Rn", "D", diag=diag)
        idx = w.index_map("idx", "Rn", "R")
        x = w.arr("x", "N", "D")
        before = p.evaluate_ln(x)
        newv = d.evaluate_ln(x)
        p.update(idx, d)                                                 # REAL (in place)
        after = p.evaluate_ln(x)
        if w.symbolic:
            from .. import kernel as K, shim as S
            r = p.ln_beta.axes[0].comps[0]
            sel = S.SymArr([S.Axis([r])], {(): K.atom("sel.idx", r)})
            src = S.IndexArr("map", S.Axis([r]), [K.app("src.idx", r)], name="src")
            spec = sel[:, None] * xp.take(newv, src, axis=0) + (1.0 - sel)[:, None] * before
            w.equal("exactly-addressed-components-replaced", after, spec)
        else:
            np = w.np
            ii = np.asarray(idx) % w.sizes["R"]
            a, b, n_ = np.asarray(after), np.asarray(before), np.asarray(newv)
            ok = True
            for r in range(w.sizes["R"]):
                hits = [k for k in range(len(ii)) if ii[k] == r]
                if not hits:
                    ok = ok and np.allclose(a[r], b[r], rtol=1e-9, atol=1e-9)
                else:
                    ok = ok and any(np.allclose(a[r], n_[k], rtol=1e-9, atol=1e-9) for k in hits)
            w.check("exactly-addressed-components-replaced", ok, "updated density differs from the selector model")
        wf_measure(w, "receiver-after", p, is_pdf=True, logdet=False)
    return ob


def _register():
    for kind in ("general", "rank-one", "linear", "constant", "measure", "measure+cache", "diag-measure", "diag-measure+cache", "pdf", "diag-pdf"):
        for R in ("R", 1):
            cls = FACTOR_CLS.get(kind.replace("+cache", ""), "pdf.GaussianDiagPDF")
            REG.ob(f"slice/{kind}/R={R}", sorts=(["R"] if R != 1 else []) + ["Rn", "D", "N"] if R != 1 else ["D", "N"],
                   funcs=[f"{cls}.slice"], axioms=TAKE)(_mk_slice_factor(kind, R))
    for ukind in ("measure", "measure+cache", "pdf"):
        for fkind in ("general", "rank-one", "linear", "constant", "measure"):
            for op in ("multiply", "hadamard"):
                quick = ukind != "pdf" or fkind in ("general", "rank-one")
                REG.ob(f"{op}-layout/{ukind}*{fkind}", sorts=["R1", "R2", "Rn1", "Rn2", "D", "N"] if op == "multiply" else ["R1", "Rn", "D", "N"],
                       funcs=[f"measure.GaussianMeasure.{op}", "measure.GaussianMeasure.slice", f"{FACTOR_CLS[fkind]}.slice"],
                       axioms=TAKE, tier="quick" if quick else "thorough")(_mk_product_layout(ukind, fkind, op))
    for fkind in ("general", "rank-one", "linear", "constant"):
        for which in ("measure-single", "factor-single"):
            REG.ob(f"hadamard-broadcast/{fkind}/{which}", sorts=["R", "Rn", "D", "N"],
                   funcs=["measure.GaussianMeasure.hadamard", f"{FACTOR_CLS[fkind]}._hadamard_with_measure", "measure.GaussianMeasure.slice"],
                   axioms=TAKE)(_mk_hadamard_broadcast(fkind, which))
    for key in ("1", "x", "xx'", "(Ax+a)", "(Ax+a)'(Bx+b)", "(Ax+a)(Bx+b)'", "xb'xx'"):
        for cache in (False, True):
            REG.ob(f"integrate[{key}]/cache={int(cache)}", sorts=["R", "Rn", "D", "K"],
                   funcs=["measure.GaussianMeasure.integrate", "measure.GaussianMeasure.slice"], axioms=TAKE,
                   tier="quick" if cache else "thorough")(_mk_integrals(key, cache))
    for kind in ("full", "diag", "identity", "identity-diag"):
        cls = SP.COND_CLS[kind]
        REG.ob(f"{cls}.condition_on_x", sorts=["R", "Rn", "N", "Ny", "Dy"] + ([] if kind.startswith("identity") else ["Dx"]),
               funcs=[f"conditional.{cls}.condition_on_x", f"conditional.{cls}.slice", f"conditional.{cls}.get_conditional_mu",
                      f"conditional.{cls}.__call__"] + (["conditional.ConditionalGaussianPDF.__call__"] if kind == "diag" else []),
               axioms=TAKE)(_mk_cond_on_x(kind))
        for which in ("joint", "marginal", "conditional"):
            for (Rc, Rx) in LAYOUTS[1:]:
                order = {} if kind.startswith("identity") else {("Dx", "Dy"): True}
                REG.ob(f"{cls}.{which}-transformation/R=({Rc},{Rx})", order=order,
                       sorts=[s for s in (Rc, Rx) if s != 1] + ["Rn", "Dy"] + ([] if kind.startswith("identity") else ["Dx"]),
                       funcs=[f"conditional.{cls}.affine_{which}_transformation", f"conditional.{cls}.slice", "pdf.GaussianPDF.slice"],
                       axioms=TAKE)(_mk_transform(kind, which, Rc, Rx))
    for Rq in ("R", 1):
        REG.ob(f"information/Rq={Rq}", sorts=["R", "Rn", "D"], funcs=["pdf.GaussianPDF.entropy", "pdf.GaussianPDF.kl_divergence", "pdf.GaussianPDF.slice"],
               axioms=TAKE)(_mk_info("R", Rq))
    for diag in (False, True):
        REG.ob(f"update/{'GaussianDiagPDF' if diag else 'GaussianPDF'}", sorts=["R", "Rn", "D", "N"],
               funcs=[f"pdf.{'GaussianDiagPDF' if diag else 'GaussianPDF'}.update"],
               axioms=TAKE + ["scatter with duplicate indices: one winner per component, the same for every field"])(_mk_update(diag))


_register()


from . import condctor as _cc  # noqa: E402
REG.include(_cc.REG, prefix="ctor")
