"""C16: moment matching of approximate conditionals is exact (DESIGN §6-C16) -- feature models (RBF, squared-exponential).
Spec from first principles: with phi(x) = [x; k(x)] and k_i a Gaussian bump with natural parameters (Lk_i, nuk_i, ck_i),
E[k_i], E[x k_i], E[k_i k_j] under p(x) are Gaussian integrals of products (natural parameters add; axiom G1)."""
from ..runner import Registry
from .. import spec as SP
from .wf import wf_measure, wf_conditional

REG = Registry("C16")
AX = ["G1 Gaussian integral", "G2 Isserlis/Wick", "positive definiteness of the moment-matched covariances"]


def gen_feature_cond(w, kind, Dy="Dy", Dx="Dx", Dk="Dk"):
    """LRBF / LSEM conditional through the REAL constructor; returns (object, params, kernel natural parameters)"""
    A = SP.mods()["approximate_conditional"]
    xp = w.xp
    g = w.spd("c", [1], Dy)
    Mx, Mk = w.arr("Mx", 1, Dy, Dx), w.arr("Mk", 1, Dy, Dk)
    M = xp.concatenate([Mx, Mk], axis=2)
    b = w.arr("bc", 1, Dy)
    dx = w.size(Dx)
    if kind == "rbf":
        s = w.arr("sk", Dk, Dx)
        l = w.pos("lk", Dk, Dx)
        obj = A.LRBFGaussianConditional(M=M, b=b, mu=s, length_scale=l, Sigma=g["S"], Lambda=g["L"], ln_det_Sigma=g["ld"])
        Lk = xp.eye(dx)[None] * (1.0 / l ** 2)[:, :, None]
        nuk = s / l ** 2
        ck = -0.5 * xp.sum((s / l) ** 2, axis=1)
        ln_k = lambda x: -0.5 * xp.sum(((x[None] - s[:, None]) / l[:, None]) ** 2, axis=2)      # [Dk, N]
    else:
        wv = w.arr("wk", Dk, Dx)
        w0 = w.arr("w0", Dk)
        W = xp.concatenate([w0[:, None], wv], axis=1)
        obj = A.LSEMGaussianConditional(M=M, b=b, W=W, Sigma=g["S"], Lambda=g["L"], ln_det_Sigma=g["ld"])
        Lk = xp.einsum("ki,kj->kij", wv, wv)
        nuk = wv * w0[:, None]          # the implementation's convention: k(x) = exp(-(w'x - w0)^2 / 2)
        ck = -0.5 * w0 ** 2
        ln_k = lambda x: -0.5 * (xp.einsum("ki,ni->kn", wv, x) - w0[:, None]) ** 2
        return obj, dict(S=g["S"], L=g["L"], ld=g["ld"], Mx=Mx, Mk=Mk, b=b), dict(L=Lk, nu=nuk, c=ck, ln_k=ln_k, rank_one=wv)
    return obj, dict(S=g["S"], L=g["L"], ld=g["ld"], Mx=Mx, Mk=Mk, b=b), dict(L=Lk, nu=nuk, c=ck, ln_k=ln_k)


def kernel_moments(w, px, Kp, Dx):
    """E[k_i] [R,Dk], E[x k_i] [R,Dk,Dx], E[k_i k_j] [R,Dk,Dk] under p_x (axiom G1)"""
    xp = w.xp
    dx = w.size(Dx)
    nux = xp.einsum("rij,rj->ri", px["L"], px["mu"])
    cx = -(0.5 * xp.einsum("ri,ri->r", px["mu"], nux) + 0.5 * dx * w.log2pi() + 0.5 * px["ld"])
    L1 = px["L"][:, None] + Kp["L"][None]
    if Kp.get("rank_one") is not None:
        # Sherman-Morrison + matrix determinant lemma as ghost steps (checked by the kernel / from the Lean library):
        wv = Kp["rank_one"]
        Sv = xp.einsum("rij,kj->rki", px["S"], wv)
        den = 1.0 + xp.einsum("ki,rki->rk", wv, Sv)
        S1_sm = px["S"][:, None] - xp.einsum("rki,rkj->rkij", Sv, Sv) / den[:, :, None, None]
        w.ld_rule(L1, -px["ld"][:, None] + xp.log(den), "GtvLemmas.det_rank_one_update")
        w.have_inverse(L1, S1_sm, "Sherman-Morrison (rank-one update of the inverse)")
    S1 = w.inv(L1)
    n1 = nux[:, None] + Kp["nu"][None]
    c1 = cx[:, None] + Kp["c"][None]
    lnm1 = 0.5 * xp.einsum("rki,rkij,rkj->rk", n1, S1, n1) + 0.5 * dx * w.log2pi() - 0.5 * w.logdet(L1) + c1
    Ek = xp.exp(lnm1)
    Exk = Ek[:, :, None] * xp.einsum("rkij,rkj->rki", S1, n1)
    L2 = L1[:, :, None] + Kp["L"][None, None]
    if Kp.get("rank_one") is not None:
        S1v = xp.einsum("rkij,lj->rkli", S1_sm, wv)
        den2 = 1.0 + xp.einsum("li,rkli->rkl", wv, S1v)
        S2_sm = S1_sm[:, :, None] - xp.einsum("rkli,rklj->rklij", S1v, S1v) / den2[:, :, :, None, None]
        w.ld_rule(L2, (-px["ld"][:, None] + xp.log(den))[:, :, None] + xp.log(den2), "GtvLemmas.det_rank_one_update")
        w.have_inverse(L2, S2_sm, "Sherman-Morrison (second rank-one update)")
    S2 = w.inv(L2)
    n2 = n1[:, :, None] + Kp["nu"][None, None]
    c2 = c1[:, :, None] + Kp["c"][None, None]
    lnm2 = 0.5 * xp.einsum("rkli,rklij,rklj->rkl", n2, S2, n2) + 0.5 * dx * w.log2pi() - 0.5 * w.logdet(L2) + c2
    return Ek, Exk, xp.exp(lnm2)


def moment_spec(w, par, px, Kp, Dx):
    """mean / covariance of y and E[y x'] under p(y|x) p(x) with p(y|x) = N(Mx x + Mk k(x) + b, Sigma)"""
    xp = w.xp
    Ek, Exk, Ekk = kernel_moments(w, px, Kp, Dx)
    Mx, Mk, b = par["Mx"][0], par["Mk"][0], par["b"][0]
    mu = px["mu"]
    Exx = px["S"] + xp.einsum("ri,rj->rij", mu, mu)
    mu_y = xp.einsum("ai,ri->ra", Mx, mu) + xp.einsum("ak,rk->ra", Mk, Ek) + b[None]
    # E[m(x) m(x)'] with m = Mx x + Mk k + b
    Emm = (xp.einsum("ai,rij,bj->rab", Mx, Exx, Mx) + xp.einsum("ak,rkl,bl->rab", Mk, Ekk, Mk)
           + xp.einsum("ai,rki,bk->rab", Mx, Exk, Mk) + xp.einsum("ak,rki,bi->rab", Mk, Exk, Mx))
    lin = xp.einsum("ai,ri->ra", Mx, mu) + xp.einsum("ak,rk->ra", Mk, Ek)
    Emm = Emm + xp.einsum("ra,b->rab", lin, b) + xp.einsum("a,rb->rab", b, lin) + xp.einsum("a,b->ab", b, b)[None]
    Sigma_y = par["S"] + Emm - xp.einsum("ra,rb->rab", mu_y, mu_y)
    # a covariance matrix is symmetric (E[k_i k_j] = E[k_j k_i]); written symmetrically so that the normal form does not
    # depend on the order in which the two kernel factors were multiplied in
    Sigma_y = 0.5 * (Sigma_y + xp.swapaxes(Sigma_y, 1, 2))
    Eyx = xp.einsum("ai,rij->raj", Mx, Exx) + xp.einsum("ak,rkj->raj", Mk, Exk) + xp.einsum("a,rj->raj", b, mu)
    return mu_y, Sigma_y, Eyx


def _mk_readout(kind):
    def ob(w):
        xp = w.xp
        obj, par, Kp = gen_feature_cond(w, kind)
        x = w.arr("x", "N", "Dx")
        w.equal("kernel/unit-height-bump", obj.k_func.evaluate_ln(x), Kp["ln_k"](x))
        p = obj.condition_on_x(x)                                           # REAL
        mean = xp.einsum("ai,ni->na", par["Mx"][0], x) + xp.einsum("ak,kn->na", par["Mk"][0], xp.exp(Kp["ln_k"](x))) + par["b"][0][None]
        w.equal("condition_on_x/mu=Mx x + Mk k(x) + b", p.mu, mean)
        w.equal("condition_on_x/Sigma", p.Sigma, xp.tile(par["S"], (w.size("N"), 1, 1)))
        wf_measure(w, "condition_on_x", p, is_pdf=True)
    return ob


def _mk_moments(kind, R):
    def ob(w):
        xp = w.xp
        obj, par, Kp = gen_feature_cond(w, kind)
        p_x, px = SP.gen_pdf(w, "x", R, "Dx")
        mu_s, Sy_s, Eyx_s = moment_spec(w, par, px, Kp, "Dx")
        mu_y, Sigma_y = obj.get_expected_moments(p_x)                      # REAL
        w.equal("get_expected_moments/mu", mu_y, mu_s)
        w.equal("get_expected_moments/Sigma", Sigma_y, Sy_s)
        w.equal("get_expected_cross_terms", obj.get_expected_cross_terms(p_x), Eyx_s)
        p_y = obj.affine_marginal_transformation(p_x)                      # REAL
        w.equal("marginal/mu", p_y.mu, mu_s)
        w.equal("marginal/Sigma", p_y.Sigma, Sy_s)
        wf_measure(w, "marginal", p_y, is_pdf=True)
    return ob


def _mk_conditional(kind, R):
    def ob(w):
        xp = w.xp
        obj, par, Kp = gen_feature_cond(w, kind)
        p_x, px = SP.gen_pdf(w, "x", R, "Dx")
        mu_s, Sy_s, Eyx_s = moment_spec(w, par, px, Kp, "Dx")
        cov_yx = Eyx_s - xp.einsum("ra,rj->raj", mu_s, px["mu"])
        if kind == "lsem":
            # the code's moment-matched covariance and the spec's are equal but written with the two rank-one updates in
            # different orders: identify their inverses (ghost step, the equality itself is proved by the kernel)
            w.inv_congruence(obj.get_expected_moments(p_x)[1], Sy_s)
        Ly = w.inv(Sy_s)
        post = obj.affine_conditional_transformation(p_x)                  # REAL
        M_s = xp.einsum("raj,rab->rjb", cov_yx, Ly)
        w.equal("conditional/M", post.M, M_s)
        w.equal("conditional/b", post.b, px["mu"] - xp.einsum("rjb,rb->rj", M_s, mu_s))
        w.equal("conditional/Sigma", post.Sigma, px["S"] - xp.einsum("rjb,rbi->rji", M_s, cov_yx))
        wf_conditional(w, "conditional", post)
    return ob


def _mk_joint(kind, R):
    def ob(w):
        xp = w.xp
        w.kernel_option("prefer_family_head", {"Dk"})
        obj, par, Kp = gen_feature_cond(w, kind)
        p_x, px = SP.gen_pdf(w, "x", R, "Dx")
        mu_s, Sy_s, Eyx_s = moment_spec(w, par, px, Kp, "Dx")
        cov_yx = Eyx_s - xp.einsum("ra,rj->raj", mu_s, px["mu"])
        joint = obj.affine_joint_transformation(p_x)                       # REAL
        w.equal("joint/mu", joint.mu, xp.concatenate([px["mu"], mu_s], axis=1))
        S_xy = xp.concatenate([xp.concatenate([px["S"], xp.swapaxes(cov_yx, 1, 2)], axis=2),
                               xp.concatenate([cov_yx, Sy_s], axis=2)], axis=1)
        w.equal("joint/Sigma", joint.Sigma, S_xy)
        # wf of the joint: Lambda is the Schur-complement inverse returned by the invert_matrix contract
        # (GtvLemmas.inv_fromBlocks11/22); Sigma*Lambda = I is re-derived by the kernel (needs the inverse family P_i =
        # (Lx + K_i)^-1 oriented on K_i P_i, see kernel.register_inv), ln det by det_inv_of_mul_eq_one.  The lnZ clauses
        # (nu' Sigma nu with nu = Lambda mu) exceed the canonicalisation budget and are not obligations here.
        Sg, L = joint.Sigma, joint.Lambda
        w.equal("joint/wf/Sigma*Lambda=I", xp.einsum("rij,rjk->rik", Sg, L), xp.eye(Sg.shape[-1])[None], broadcast=True)
        w.equal("joint/wf/Sigma-symmetric", Sg, xp.swapaxes(Sg, 1, 2))
        w.equal("joint/wf/Lambda-symmetric", L, xp.swapaxes(L, 1, 2))
        w.equal("joint/wf/ln_det_Sigma=-LogDet[Lambda]", joint.ln_det_Sigma, -w.logdet(L))
        w.equal("joint/wf/mu=Sigma*nu", joint.mu, xp.einsum("rij,rj->ri", Sg, joint.nu))
        w.equal("joint/wf/nu=Lambda*mu", joint.nu, xp.einsum("rij,rj->ri", L, joint.mu))
    return ob


def _mk_hetero(kind, what):
    """heteroscedastic noise with exp / cosh-1 link: E[y] = M mu + b, Cov[y] = AA' + A_k diag(E[link(h)]) A_k' + M Sx M',
    Cov[y,x] = M Sx, with E[exp(h)] = exp(w'mu + w0 + w'Sx w / 2) (Gaussian moment generating function, axiom G1)"""
    from .C17 import gen_hetero

    def ob(w):
        xp = w.xp
        obj, par = gen_hetero(w, kind, "wide")
        p_x, px = SP.gen_pdf(w, "x", 1, "Dx")
        mu, Sx = px["mu"], px["S"]
        wm = xp.einsum("ki,ri->rk", par["wv"], mu)[0] + par["w0"]                  # [Dk]
        wSw = xp.einsum("ki,rij,kj->rk", par["wv"], Sx, par["wv"])[0]
        if kind == "exp":
            ED = xp.exp(wm + 0.5 * wSw)
        else:
            ED = 0.5 * xp.exp(wm + 0.5 * wSw) + 0.5 * xp.exp(-wm + 0.5 * wSw) - 1.0
        M, b, Ak, A = par["M"][0], par["b"][0], par["Ak"][0], par["A"][0]
        mu_s = xp.einsum("ij,rj->ri", M, mu) + b[None]
        Sy_s = (xp.einsum("ia,ja->ij", A, A) + xp.einsum("ik,k,jk->ij", Ak, ED, Ak))[None] + xp.einsum("ij,rjk,lk->ril", M, Sx, M)
        cov_yx = xp.einsum("ij,rjk->rik", M, Sx)
        if what == "moments":
            w.equal("integrate_noise_diagonal=E[link(h)]", obj._integrate_noise_diagonal(p_x), ED)
            mu_y, Sigma_y = obj.get_expected_moments(p_x)                    # REAL
            w.equal("get_expected_moments/mu", mu_y, mu_s)
            w.equal("get_expected_moments/Sigma", Sigma_y, Sy_s)
            w.equal("get_expected_cross_terms", obj.get_expected_cross_terms(p_x), cov_yx + xp.einsum("ri,rj->rij", mu_s, mu))
            p_y = obj.affine_marginal_transformation(p_x)                    # REAL
            w.equal("marginal/mu", p_y.mu, mu_s)
            w.equal("marginal/Sigma", p_y.Sigma, Sy_s)
            wf_measure(w, "marginal", p_y, is_pdf=True)
        elif what == "conditional":
            Ly = w.inv(Sy_s)
            post = obj.affine_conditional_transformation(p_x)               # REAL
            M_s = xp.einsum("raj,rab->rjb", cov_yx, Ly)
            w.equal("conditional/M", post.M, M_s)
            w.equal("conditional/b", post.b, mu - xp.einsum("rjb,rb->rj", M_s, mu_s))
            w.equal("conditional/Sigma", post.Sigma, Sx - xp.einsum("rjb,rbi->rji", M_s, cov_yx))
            wf_conditional(w, "conditional", post)
        else:
            joint = obj.affine_joint_transformation(p_x)                     # REAL
            w.equal("joint/mu", joint.mu, xp.concatenate([mu, mu_s], axis=1))
            S_xy = xp.concatenate([xp.concatenate([Sx, xp.swapaxes(cov_yx, 1, 2)], axis=2),
                                   xp.concatenate([cov_yx, Sy_s], axis=2)], axis=1)
            w.equal("joint/Sigma", joint.Sigma, S_xy)
            wf_measure(w, "joint", joint, is_pdf=True)
    return ob


def _mk_hetero_trunc(kind, what="moments"):
    """step / rectified-linear links: E[link(h)] under the 1-D law of h = w'x + w0 ~ N(m, s^2) through the truncated measure
    (C20 contracts):  E[step(h)] = Phi(m/s),  E[relu(h)] = m Phi(m/s) + s phi(m/s);  then the moments as for the other links"""
    from .C17 import gen_hetero

    def ob(w):
        xp = w.xp
        w.literal_arange = True
        obj, par = gen_hetero(w, kind, "wide")
        p_x, px = SP.gen_pdf(w, "x", 1, "Dx")
        mu, Sx = px["mu"], px["S"]
        m = xp.einsum("ki,ri->rk", par["wv"], mu)[0] + par["w0"]
        s = xp.sqrt(xp.einsum("ki,rij,kj->rk", par["wv"], Sx, par["wv"])[0])
        ED = w.Phi(m / s) if kind == "heaviside" else m * w.Phi(m / s) + s * w.phi(m / s)
        M, b, Ak, A = par["M"][0], par["b"][0], par["Ak"][0], par["A"][0]
        mu_s = xp.einsum("ij,rj->ri", M, mu) + b[None]
        Sy_s = (xp.einsum("ia,ja->ij", A, A) + xp.einsum("ik,k,jk->ij", Ak, ED, Ak))[None] + xp.einsum("ij,rjk,lk->ril", M, Sx, M)
        cov_yx = xp.einsum("ij,rjk->rik", M, Sx)
        if what == "moments":
            w.equal("integrate_noise_diagonal=E[link(h)]", obj._integrate_noise_diagonal(p_x), ED)
            mu_y, Sigma_y = obj.get_expected_moments(p_x)                    # REAL
            w.equal("get_expected_moments/mu", mu_y, mu_s)
            w.equal("get_expected_moments/Sigma", Sigma_y, Sy_s)
            w.equal("get_expected_cross_terms", obj.get_expected_cross_terms(p_x), cov_yx + xp.einsum("ri,rj->rij", mu_s, mu))
            p_y = obj.affine_marginal_transformation(p_x)                    # REAL
            w.equal("marginal/mu", p_y.mu, mu_s)
            w.equal("marginal/Sigma", p_y.Sigma, Sy_s)
            wf_measure(w, "marginal", p_y, is_pdf=True)
        elif what == "conditional":
            Ly = w.inv(Sy_s)
            post = obj.affine_conditional_transformation(p_x)               # REAL
            M_s = xp.einsum("raj,rab->rjb", cov_yx, Ly)
            w.equal("conditional/M", post.M, M_s)
            w.equal("conditional/b", post.b, mu - xp.einsum("rjb,rb->rj", M_s, mu_s))
            w.equal("conditional/Sigma", post.Sigma, Sx - xp.einsum("rjb,rbi->rji", M_s, cov_yx))
            wf_conditional(w, "conditional", post)
        else:
            joint = obj.affine_joint_transformation(p_x)                     # REAL
            w.equal("joint/mu", joint.mu, xp.concatenate([mu, mu_s], axis=1))
            S_xy = xp.concatenate([xp.concatenate([Sx, xp.swapaxes(cov_yx, 1, 2)], axis=2),
                                   xp.concatenate([cov_yx, Sy_s], axis=2)], axis=1)
            w.equal("joint/Sigma", joint.Sigma, S_xy)
            wf_measure(w, "joint", joint, is_pdf=True)
    return ob


def _register():
    for kind, cls in (("heaviside", "HeteroscedasticHeavisideConditional"), ("relu", "HeteroscedasticReLUConditional")):
      for what in ("moments", "conditional", "joint"):
        REG.ob(f"{cls}/{what}", sorts=["Dy", "Dx", "Dk", "Dr"],
               funcs=[f"approximate_conditional.HeteroscedasticConditional.{m_}" for m_ in ("get_expected_cross_terms",
                      "affine_joint_transformation", "affine_conditional_transformation", "affine_marginal_transformation")] + [f"approximate_conditional.{cls}._integrate_noise_diagonal", "approximate_conditional.HeteroscedasticConditional.integrate_Sigma_x",
                      "approximate_conditional.HeteroscedasticConditional.get_expected_moments", "pdf.GaussianPDF.get_density_of_linear_sum",
                      "experimental.truncated_measure.TruncatedGaussianMeasure.integral", "experimental.truncated_measure.TruncatedGaussianMeasure.integrate_x"],
               axioms=AX + ["G4 truncated Gaussian integrals", "jax.vmap: map over the leading axis"],
               order={("Dy", "Dk+Dr"): False, ("Dk", "Dk+Dr"): False},
               sizes=[dict(Dy=2, Dx=3, Dk=2, Dr=2), dict(Dy=3, Dx=2, Dk=1, Dr=3)])(_mk_hetero_trunc(kind, what))
    for kind, cls in (("exp", "HeteroscedasticExpConditional"), ("coshm1", "HeteroscedasticCoshM1Conditional")):
        F = [f"approximate_conditional.{cls}._integrate_noise_diagonal"] +             [f"approximate_conditional.HeteroscedasticConditional.{m}" for m in ("integrate_Sigma_x", "get_expected_moments", "get_expected_cross_terms",
             "affine_joint_transformation", "affine_conditional_transformation", "affine_marginal_transformation")]
        for what in ("moments", "conditional", "joint"):
            REG.ob(f"{cls}/{what}", sorts=["Dy", "Dx", "Dk", "Dr"], funcs=F, axioms=AX,
                   order={("Dy", "Dk+Dr"): False, ("Dk", "Dk+Dr"): False},
                   sizes=[dict(Dy=2, Dx=3, Dk=2, Dr=2), dict(Dy=3, Dx=2, Dk=1, Dr=3)])(_mk_hetero(kind, what))
    for kind, cls in (("rbf", "LRBFGaussianConditional"), ("lsem", "LSEMGaussianConditional")):
        F = [f"approximate_conditional.{cls}.{m}" for m in ("__post_init__", "update_phi")] + \
            [f"approximate_conditional.LConjugateFactorMGaussianConditional.{m}" for m in
             ("evaluate_phi", "get_conditional_mu", "get_expected_moments", "get_expected_cross_terms", "affine_joint_transformation",
              "affine_conditional_transformation", "affine_marginal_transformation")] + ["conditional.ConditionalGaussianPDF.condition_on_x"]
        REG.ob(f"{cls}/read-out", sorts=["Dx", "Dy", "Dk", "N"], funcs=F, axioms=AX)(_mk_readout(kind))
        # LSEM: E[k_i k_j] goes through two successive Sherman-Morrison updates; the equality of the two update orders
        # (needed for every covariance-level clause) exceeds the kernel's canonicalisation budget -> only the mean-level
        # clauses are obligations for this class, the rest is listed as not covered
        lsem_only = None
        for R in ("R", 1):
            REG.ob(f"{cls}/moments+marginal/R={R}", sorts=(["R"] if R != 1 else []) + ["Dx", "Dy", "Dk"], funcs=F, axioms=AX,
                   only_clauses=lsem_only, tier="quick" if R == 1 or kind == "rbf" else "thorough")(_mk_moments(kind, R))
            REG.ob(f"{cls}/conditional/R={R}", sorts=(["R"] if R != 1 else []) + ["Dx", "Dy", "Dk"], funcs=F, axioms=AX)(_mk_conditional(kind, R))
            REG.ob(f"{cls}/joint/R={R}", sorts=(["R"] if R != 1 else []) + ["Dx", "Dy", "Dk"], funcs=F, axioms=AX)(_mk_joint(kind, R))


_register()
