"""Class invariant wf (DESIGN §3.2): whatever an object exposes next to (Lambda, nu) is consistent with it."""


DECLARED_MEASURE_STATE = {"Lambda", "nu", "ln_beta", "Sigma", "ln_det_Lambda", "ln_det_Sigma", "lnZ", "mu"}


def wf_measure(w, pfx, obj, is_pdf=False, logdet=True):
    """clauses `pfx/wf/...` for a GaussianMeasure-like object (measure, diag measure, pdf)"""
    xp = w.xp
    extra = sorted(set(obj.__dict__) - DECLARED_MEASURE_STATE)
    w.check(f"{pfx}/wf/state-covered-by-invariant", not extra,
            f"attributes the class invariant does not cover (an undeclared cache cannot be kept consistent): {extra}")
    L, nu = obj.Lambda, obj.nu
    Dsz = L.shape[-1]
    Sg = getattr(obj, "Sigma", None)
    ldS = getattr(obj, "ln_det_Sigma", None)
    ldL = getattr(obj, "ln_det_Lambda", None)
    mu = getattr(obj, "mu", None)
    lnZ = getattr(obj, "lnZ", None)
    w.check(f"{pfx}/batch/axes", _lead(L) == _lead(nu) == _lead(obj.ln_beta),
            f"Lambda {L.shape}, nu {nu.shape}, ln_beta {obj.ln_beta.shape}")
    if type(obj).__name__ in ("GaussianMeasure", "GaussianDiagMeasure"):
        # the covariance cache is filled and copied as a whole (invert_lambda, slice, the products): a partially filled
        # cache makes the next copy (`jnp.take(None, ...)`) fail
        state = [Sg is None, ldS is None, ldL is None]
        w.check(f"{pfx}/wf/covariance-cache-all-or-none", len(set(state)) == 1,
                f"Sigma is None: {state[0]}, ln_det_Sigma is None: {state[1]}, ln_det_Lambda is None: {state[2]}")
    if Sg is not None:
        _inverse_clause(w, f"{pfx}/wf/Sigma*Lambda=I", Sg, L, Dsz)
        w.equal(f"{pfx}/wf/Sigma-symmetric", Sg, xp.swapaxes(Sg, 1, 2))
    w.equal(f"{pfx}/wf/Lambda-symmetric", L, xp.swapaxes(L, 1, 2))
    if ldS is not None and ldL is not None:
        w.equal(f"{pfx}/wf/ln_det_Sigma=-ln_det_Lambda", ldS, -ldL)
    if logdet:
        if ldL is not None:
            w.equal(f"{pfx}/wf/ln_det_Lambda=LogDet[Lambda]", ldL, w.logdet(L))
        elif ldS is not None:
            w.equal(f"{pfx}/wf/ln_det_Sigma=-LogDet[Lambda]", ldS, -w.logdet(L))
    if mu is not None:
        if Sg is None:
            w.check(f"{pfx}/wf/mu-needs-Sigma", False, "mu cached without Sigma")
        else:
            w.equal(f"{pfx}/wf/mu=Sigma*nu", mu, xp.einsum("rij,rj->ri", Sg, nu))
    if lnZ is not None:
        if Sg is None or ldS is None:
            w.check(f"{pfx}/wf/lnZ-needs-Sigma", False, "lnZ cached without Sigma / ln_det_Sigma")
        else:
            w.equal(f"{pfx}/wf/lnZ", lnZ, 0.5 * xp.einsum("ri,rij,rj->r", nu, Sg, nu) + 0.5 * Dsz * w.log2pi() + 0.5 * ldS)
    if is_pdf:
        w.check(f"{pfx}/wf/pdf-has-caches", Sg is not None and mu is not None and lnZ is not None and ldS is not None,
                "a density must expose Sigma, mu, lnZ, ln_det_Sigma")
        if lnZ is not None:
            w.equal(f"{pfx}/wf/ln_beta=-lnZ", obj.ln_beta, -lnZ)
        if mu is not None:
            w.equal(f"{pfx}/wf/nu=Lambda*mu", nu, xp.einsum("rij,rj->ri", L, mu))


def wf_conditional(w, pfx, c, logdet=True):
    xp = w.xp
    Dsz = c.Sigma.shape[-1]
    _inverse_clause(w, f"{pfx}/wf/Sigma*Lambda=I", c.Sigma, c.Lambda, Dsz)
    w.equal(f"{pfx}/wf/Sigma-symmetric", c.Sigma, xp.swapaxes(c.Sigma, 1, 2))
    if logdet:
        w.equal(f"{pfx}/wf/ln_det_Sigma=-LogDet[Lambda]", c.ln_det_Sigma, -w.logdet(c.Lambda))
    lead = [_lead(c.Sigma), _lead(c.Lambda), _lead(c.ln_det_Sigma)]
    if getattr(c, "M", None) is not None and not isinstance(getattr(type(c), "M", None), property):
        try:
            lead += [_lead(c.M), _lead(c.b)]
        except Exception:  # identity kinds have no M / b
            pass
    w.check(f"{pfx}/batch/axes", len(set(lead)) == 1, f"leading axes {lead}")


def _inverse_clause(w, name, Sg, L, Dsz):
    xp = w.xp
    if w.symbolic and not Sg.dsum_positions() and w.is_contract_inverse(Sg, L):
        w.check(name, True, "Lambda is the atom Inv[Sigma] returned by the invert_matrix contract for exactly this Sigma")
        return
    w.equal(name, xp.einsum("rij,rjk->rik", Sg, L), xp.eye(Dsz)[None], broadcast=True)


def _lead(a):
    return repr(a.shape[0])
