"""C05: marginals and linear images have the law of the sub-vector / of Wx+b (DESIGN §6-C05)."""
from ..runner import Registry
from .. import spec as SP
from .. import lemmas as LM
from .wf import wf_measure

REG = Registry("C05")


def sub(xp, A, i, j=None):
    """A[:, i] / A[:, i][:, :, j]"""
    if j is None:
        return A[:, i]
    return A[:, i][:, :, j]


def _mk_marginal(R, diag, all_coords):
    def ob(w):
        xp = w.xp
        if all_coords:
            (sa,) = w.partition("D", [("sa", "Da")])
        else:
            sa, sc = w.partition("D", [("sa", "Da"), ("sc", "Dc")])
        p, par = SP.gen_pdf(w, "p", R, "D", diag=diag)
        S_aa = sub(xp, par["S"], sa, sa)
        if not all_coords and not diag:
            L_cc = sub(xp, par["L"], sc, sc)
            LM.principal_submatrix_logdet(w, S_aa, par["ld"], L_cc)
        from .common import fresh_result, params_unchanged, snapshot as _snap
        sp_ = _snap(p)
        m = p.get_marginal(sa)                                           # REAL
        fresh_result(w, "frame/result-is-a-new-object", m, p)
        params_unchanged(w, "frame/operand-unchanged", p, sp_, ("Sigma", "mu", "Lambda", "nu", "ln_beta", "ln_det_Sigma", "lnZ"))
        w.equal("value/mu", m.mu, sub(xp, par["mu"], sa))
        w.equal("value/Sigma", m.Sigma, S_aa)
        wf_measure(w, "result", m, is_pdf=True)
        w.check("class", type(m) is type(p), f"{type(p).__name__} -> {type(m).__name__}")
        if all_coords or diag:
            return
        # density of the marginal == integral of the joint density over the remaining coordinates (axiom G1 on block c)
        L_aa, L_ac = sub(xp, par["L"], sa, sa), sub(xp, par["L"], sa, sc)
        Linv_cc = w.inv(L_cc)
        schur = L_aa - xp.einsum("rij,rjk,rlk->ril", L_ac, Linv_cc, L_ac)
        w.have_inverse(S_aa, schur, "Schur complement (inverse of a principal submatrix)")
        xa = w.arr("xa", "N", "Da")
        nu = xp.einsum("rij,rj->ri", par["L"], par["mu"])
        nu_a, nu_c = sub(xp, nu, sa), sub(xp, nu, sc)
        lnZ = 0.5 * xp.einsum("ri,ri->r", par["mu"], nu) + 0.5 * w.size("D") * w.log2pi() + 0.5 * par["ld"]
        eta = nu_c[:, None] - xp.einsum("rji,nj->rni", L_ac, xa)            # ν_c − Λ_ca x_a   [R,N,Dc]
        integral = (-0.5 * xp.einsum("ni,rij,nj->rn", xa, L_aa, xa) + xp.einsum("ri,ni->rn", nu_a, xa) - lnZ[:, None]
                    + 0.5 * xp.einsum("rni,rij,rnj->rn", eta, Linv_cc, eta) + 0.5 * w.size("Dc") * w.log2pi()
                    - 0.5 * w.logdet(L_cc)[:, None])
        w.equal("integral/marginal=∫joint d x_c", m.evaluate_ln(xa), integral)
    return ob


def _mk_linear_sum(R, with_b, diag):
    def ob(w):
        xp = w.xp
        p, par = SP.gen_pdf(w, "p", R, "D", diag=diag)
        B = [R] if R != 1 else [1]
        W = w.arr("W", *B, "Ds", "D")
        b = w.arr("bs", *B, "Ds") if with_b else None
        q = p.get_density_of_linear_sum(W, b)                            # REAL
        mu = xp.einsum("rij,rj->ri", W, par["mu"])
        if with_b:
            mu = mu + b
        w.equal("value/mu", q.mu, mu)
        w.equal("value/Sigma", q.Sigma, xp.einsum("rij,rjk,rlk->ril", W, par["S"], W))
        wf_measure(w, "result", q, is_pdf=True)
    return ob


def _mk_linear_sum_refusal():
    def ob(w):
        p, par = SP.gen_pdf(w, "p", 1, "D")
        W = w.arr("W", 1, "Ds", "D")
        w.raises("too-many-rows-refused", (AssertionError,), lambda: p.get_density_of_linear_sum(W))
    return ob


def _register():
    for R in ("R", 1):
        for diag in (False, True):
            for all_coords in (False, True):
                cls = "pdf.GaussianDiagPDF" if diag else "pdf.GaussianPDF"
                REG.ob(f"{cls}.get_marginal/R={R}/{'all' if all_coords else 'subset'}",
                       sorts=(["R"] if R != 1 else []) + ["Da", "N"] + ([] if all_coords else ["Dc"]),
                       funcs=[f"{cls}.get_marginal", f"{cls}.__post_init__"], axioms=["G1 Gaussian integral (block c)"],
                       lemmas=["GtvLemmas.det_principal_submatrix", "Schur complement inverse"])(_mk_marginal(R, diag, all_coords))
            for with_b in (False, True):
                cls = "pdf.GaussianDiagPDF" if diag else "pdf.GaussianPDF"
                REG.ob(f"{cls}.get_density_of_linear_sum/R={R}/b={int(with_b)}", sorts=(["R"] if R != 1 else []) + ["D", "Ds"],
                       order={("Ds", "D"): False}, funcs=["pdf.GaussianPDF.get_density_of_linear_sum"])(_mk_linear_sum(R, with_b, diag))
    REG.ob("pdf.GaussianPDF.get_density_of_linear_sum/refusal", sorts=["D", "Ds"], order={("Ds", "D"): True},
           funcs=["pdf.GaussianPDF.get_density_of_linear_sum"])(_mk_linear_sum_refusal())


_register()
