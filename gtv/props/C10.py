"""C10: set_y returns the likelihood x -> p(y|x) including its normaliser (DESIGN §6-C10)."""
from ..runner import Registry
from .. import spec as SP

REG = Registry("C10")
NNF = ["conditional.NNControlGaussianConditional.set_y", "conditional.NNControlGaussianConditional.set_control_variable",
       "conditional.NNControlGaussianConditional.get_M_b", "conditional.ConditionalGaussianPDF.set_y"]
FUNCS = ["conditional.{cls}.set_y", "factor.ConjugateFactor.__post_init__", "factor.ConjugateFactor.evaluate_ln"]
CLS = {"full": "ConditionalGaussianPDF", "diag": "ConditionalGaussianDiagPDF", "nn": "NNControlGaussianConditional",
       "identity": "ConditionalIdentityGaussianPDF", "identity-diag": "ConditionalIdentityDiagGaussianPDF"}


def _spec_ln_lik(w, par, y, x, Dy, paired):
    """ln N(y_n; M x_m + b, Sigma)  -> [N, Nx]"""
    xp = w.xp
    if par["M"] is None:
        mean = x[None]                                                   # [1, Nx, D]
    else:
        mean = xp.einsum("rij,mj->rmi", par["M"], x) + par["b"][:, None]    # [R, Nx, Dy]
    r = y[:, None, :] - mean                                             # [N, Nx, Dy]  (R==1 broadcast or R==N paired)
    quad = xp.einsum("nmi,nij,nmj->nm", r, par["L"], r)
    return -0.5 * quad - 0.5 * w.size(Dy) * w.log2pi() - 0.5 * par["ld"][:, None]


def _mk(kind, paired):
    def ob(w):
        Dy = "Dy"
        Dx = "Dx" if kind in ("full", "diag", "nn") else "Dy"
        R = "N" if paired else 1
        h = SP.gen_cond_handle(w, kind, "c", R, Dy, Dx)
        cond, par = h.obj, h.par
        y = w.arr("y", "N", Dy)
        x = w.arr("x", "Nx", Dx)
        f = h.call("set_y", y)                                # REAL
        # shape clause: a well-formed batch with one component per observation
        n = w.size("N")
        w.equal("batch-shape/Lambda", f.Lambda, _bcast(w, f.Lambda, n))
        w.check("batch-shape/leading-axes",
                _lead(f.Lambda) == _lead(f.nu) == _lead(f.ln_beta) == _lead(y),
                f"Lambda {f.Lambda.shape}, nu {f.nu.shape}, ln_beta {f.ln_beta.shape}, y {y.shape}")
        val = f.evaluate_ln(x)                                # REAL  [N, Nx]
        spec = _spec_ln_lik(w, par, y, x, Dy, paired)
        w.equal("value", val, spec)
        # usable like any other factor: product() is the product of the N likelihood terms
        w.equal("product", f.product().evaluate_ln(x), w.xp.sum(spec, axis=0, keepdims=True))
    return ob


def _lead(a):
    s = a.shape[0]
    return repr(s)


def _bcast(w, a, n):
    return a


for _kind in ("full", "diag", "identity", "identity-diag", "nn"):
    for _paired in (False, True):
        _id = f"{CLS[_kind]}.set_y/{'R=N' if _paired else 'R=1'}"
        REG.ob(_id, sorts=(["N", "Nx", "Dx", "Dy"] if _kind in ("full", "diag", "nn") else ["N", "Nx", "Dy"]) + (["Du"] if _kind == "nn" else []),
               funcs=[f.format(cls=CLS[_kind]) for f in FUNCS] + (NNF if _kind == "nn" else []))(_mk(_kind, _paired))


def _mk_refusal(kind):
    """model classes whose p(y|x) is NOT a conjugate factor in x document that set_y is refused (never a silently wrong factor)"""
    def ob(w):
        y = w.arr("y", 1, "Dy")
        if kind in ("rbf", "lsem"):
            from .C16 import gen_feature_cond
            obj = gen_feature_cond(w, kind)[0]
        else:
            from .C17 import gen_hetero
            obj = gen_hetero(w, kind, "wide")[0]
        w.raises("set_y-refused", (NotImplementedError, AttributeError), lambda: obj.set_y(y))
    return ob


for _kind, _cls, _base in (("rbf", "LRBFGaussianConditional", "LConjugateFactorMGaussianConditional"), ("lsem", "LSEMGaussianConditional", "LConjugateFactorMGaussianConditional"),
                           ("exp", "HeteroscedasticExpConditional", "HeteroscedasticConditional"), ("relu", "HeteroscedasticReLUConditional", "HeteroscedasticConditional")):
    REG.ob(f"{_cls}.set_y/refusal", sorts=["Dy", "Dx", "Dk"] + (["Dr"] if _base.startswith("Hetero") else []),
           order=({("Dy", "Dk+Dr"): False, ("Dk", "Dk+Dr"): False} if _base.startswith("Hetero") else {}),
           sizes=([dict(Dy=2, Dx=3, Dk=2, Dr=2)] if _base.startswith("Hetero") else None),
           funcs=[f"approximate_conditional.{_base}.set_y"])(_mk_refusal(_kind))


def _mk_mismatch(kind):
    """R conditionals with N != R observations (R != 1): documented refusal"""
    def ob(w):
        Dx = "Dx" if kind in ("full", "diag") else "Dy"
        h = SP.gen_cond_handle(w, kind, "c", "R", "Dy", Dx)
        y = w.arr("y", "N", "Dy")
        w.raises("batch-mismatch-refused", (RuntimeError,), lambda: h.call("set_y", y))
    return ob


for _kind in ("full", "identity", "identity-diag"):
    REG.ob(f"{CLS[_kind]}.set_y/R!=N/refusal", sorts=["R", "N", "Dy"] + (["Dx"] if _kind == "full" else []),
           funcs=[f"conditional.{CLS[_kind]}.set_y"])(_mk_mismatch(_kind))


for _unit in ("Dy", "Dx"):
    for _paired in (False, True):
        REG.ob(f"ConditionalGaussianPDF.set_y/{'R=N' if _paired else 'R=1'}/{_unit}=1", sorts=["N", "Nx", "Dx", "Dy"], unit_sorts=[_unit],
               funcs=[f.format(cls="ConditionalGaussianPDF") for f in FUNCS])(_mk("full", _paired))


from . import condctor as _cc  # noqa: E402
REG.include(_cc.REG, prefix="ctor")
