"""C17: heteroscedastic conditionals -- the part a contract can decide (DESIGN §6-C17, §11):
(a) coherent p(y|x): condition_on_x(x) has mean Mx+b, covariance AA' + A_k diag(link(Wx+w0)) A_k', and its precision and
    log-determinant ARE the inverse and log-determinant of that covariance, for the four links, in the square regime
    Da = Dy (= Dk) and in the wide regime Da > Dy.
(b) validity of the lower bounds and (c) their tightness are variational / asymptotic statements about a fixed point of
    lax.while_loop and are NOT covered."""
from ..runner import Registry
from .. import spec as SP
from .. import matrices as MX
from .wf import wf_measure

REG = Registry("C17")
LINKS = {"exp": "HeteroscedasticExpConditional", "coshm1": "HeteroscedasticCoshM1Conditional",
         "heaviside": "HeteroscedasticHeavisideConditional", "relu": "HeteroscedasticReLUConditional"}


def link_spec(w, kind, h):
    xp = w.xp
    if kind == "exp":
        return xp.exp(h)
    if kind == "coshm1":
        return xp.cosh(h) - 1.0
    if kind == "heaviside":
        return w.step(h)
    return h * w.step(h)


def gen_hetero(w, kind, regime, Dx="Dx"):
    """regime 'square': A [1,D,D] invertible, Dk = Da = Dy;  'wide': A = [A_k | A_r] [1,Dy,Dk+Dr], Da > Dy"""
    AC = SP.mods()["approximate_conditional"]
    xp = w.xp
    cls = getattr(AC, LINKS[kind])
    if regime == "square":
        Dy = Dk = "Dy"
        if w.symbolic:
            from .. import shim as S
            A = w.arr("Ah", 1, "Dy", "Dy")
            Ai = w.arr("Ahi", 1, "Dy", "Dy")
            w.ctx.inv_pairs["Ah"] = "Ahi"
            w.ctx.inv_pairs["Ahi"] = "Ah"
            w.assumptions.add("A is square and invertible with inverse Ahi (regime Da = Dy)")
        else:
            import numpy as np
            n = w.sizes["Dy"]
            A_ = w.rng.standard_normal((1, n, n)) + 2.0 * np.eye(n)
            A, Ai = xp.asarray(A_), xp.asarray(np.linalg.inv(A_))
        Ak = A
    else:
        Dy, Dk = "Dy", "Dk"
        Ak, Ar = w.arr("Ak", 1, "Dy", "Dk"), w.arr("Ar", 1, "Dy", "Dr")
        A = xp.concatenate([Ak, Ar], axis=2)
        Ai = None
    M, b = w.arr("Mh", 1, Dy, Dx), w.arr("bh", 1, Dy)
    wv, w0 = w.arr("wv", Dk, Dx), w.arr("w0", Dk)
    W = xp.concatenate([w0[:, None], wv], axis=1)
    obj = cls(M=M, b=b, A=A, W=W)                                       # REAL constructor
    return obj, dict(A=A, Ak=Ak, Ai=Ai, M=M, b=b, wv=wv, w0=w0)


def _mk_cond(kind, regime):
    def ob(w):
        xp = w.xp
        obj, par = gen_hetero(w, kind, regime)
        x = w.arr("x", "N", "Dx")
        S0 = xp.einsum("aij,akj->aik", par["A"], par["A"])                 # AA'
        if regime == "square":
            # ghost: (AA')^-1 = Ai' Ai  (GtvLemmas.transpose_mul_inv_gram_mul; checked by multiplication)
            w.have_inverse(S0, xp.einsum("aji,ajk->aik", par["Ai"], par["Ai"]), "inverse of the Gram matrix of an invertible A")
        h = xp.einsum("ki,ni->nk", par["wv"], x) + par["w0"][None]
        D = link_spec(w, kind, h)                                          # [N, Dk]
        Sx = S0 + xp.einsum("ik,nk,jk->nij", par["Ak"][0], D, par["Ak"][0])
        if regime == "square":
            # GtvLemmas.det_gram_diag:  ln det(A (1+D) A') = ln det(AA') + sum_k ln(1 + D_k)
            w.ld_rule(Sx, w.logdet(S0) + xp.sum(xp.log(1.0 + D), axis=1), "GtvLemmas.det_gram_diag")
        p = obj.condition_on_x(x)                                          # REAL
        if regime == "square":
            # ln det Lambda(x) = - ln det Sigma(x) because Lambda(x) Sigma(x) = I (clause p(y|x)/wf/Sigma*Lambda=I below;
            # GtvLemmas.det_inv_of_mul_eq_one)
            w.ld_rule(p.Lambda, -(w.logdet(S0) + xp.sum(xp.log(1.0 + D), axis=1)), "GtvLemmas.det_inv_of_mul_eq_one")
        w.equal("mu=Mx+b", p.mu, xp.einsum("ij,nj->ni", par["M"][0], x) + par["b"][0][None])
        w.equal("Sigma=AA'+A_k diag(link(Wx+w0)) A_k'", p.Sigma, Sx)
        w.equal("get_conditional_cov(x)=Sigma(x)", obj.get_conditional_cov(x), Sx)            # REAL, invert=False
        wf_measure(w, "p(y|x)", p, is_pdf=True)
    return ob


def _register():
    for kind, cls in LINKS.items():
        F = [f"approximate_conditional.HeteroscedasticConditional.{m}" for m in ("__post_init__", "linear_layer", "get_conditional_cov", "condition_on_x")] + \
            [f"approximate_conditional.{cls}.link_function", "conditional.ConditionalGaussianPDF.get_conditional_mu"]
        REG.ob(f"{cls}.condition_on_x/Da=Dy", sorts=["Dy", "Dx", "N"], funcs=F, order={("Dy", "Dy"): False},
               lemmas=["GtvLemmas.det_gram_diag", "GtvLemmas.transpose_mul_inv_gram_mul", "GtvLemmas.det_inv_of_mul_eq_one"])(_mk_cond(kind, "square"))
        REG.ob(f"{cls}.condition_on_x/Da>Dy", sorts=["Dy", "Dx", "Dk", "Dr", "N"], funcs=F,
               order={("Dy", "Dk+Dr"): False, ("Dk", "Dk+Dr"): False},
               sizes=[dict(Dy=2, Dx=3, Dk=2, Dr=2, N=3), dict(Dy=3, Dx=2, Dk=2, Dr=3, N=2)])(_mk_cond(kind, "wide"))


_register()


# ------------------------------------------------------------------ (b) building blocks of the lower bound (exp, cosh-1 links)
# Equalities only: the value returned by k_func / _lower_bound_integrals IS the expectation of the stated surrogate for an
# ARBITRARY positive variational parameter omega.  That the surrogates bound the true integrands pointwise (Jaakkola-Jordan
# bound of the logistic function, its cosh analogue) is axiom G6 and is assumed, not proved; the assembly over noise units
# (vmap) with omega from the lax.while_loop fixed point is not modelled (DESIGN §11).
G6 = ["G6 variational bounds: log(1+e^h) <= h/2 + f(w) + f'(w)/(2w) (h^2 - w^2), sigma(h) >= exp(-f(w) - f'(w)/(2w)(h^2-w^2) + h/2), "
      "log cosh h <= log cosh w + tanh(w)/(2w) (h^2 - w^2), sech h >= exp(-log cosh w - tanh(w)/(2w)(h^2 - w^2))", "G1 Gaussian integral",
      "G2 Isserlis/Wick"]


def _row(w, name, Dx="Dx"):
    """one row W_i = (w0, w) of the noise weights as the library passes it to k_func: a vector over 1 + Dx"""
    xp = w.xp
    w0 = w.arr(name + "0", 1)
    wv = w.arr(name, Dx)
    return xp.concatenate([w0, wv], axis=0), w0, wv


def _mk_kfunc(kind):
    def ob(w):
        xp = w.xp
        obj, par = gen_hetero(w, kind, "square")
        p_x, px = SP.gen_pdf(w, "x", "N", "Dx")
        W_i, w0, wv = _row(w, "wi")
        om = w.pos("om", "N")
        val = obj.k_func(p_x, W_i, om)                                     # REAL
        Eh = xp.einsum("i,ni->n", wv, px["mu"]) + w0
        Eh2 = xp.einsum("i,nij,j->n", wv, px["S"], wv) + Eh ** 2
        if kind == "exp":
            f = xp.log(xp.cosh(om / 2.0)) + xp.log(2.0 + 0.0 * om)
            fp = 0.5 * xp.tanh(om / 2.0)
            spec = 0.5 * Eh + f + 0.5 * fp / om * (Eh2 - om ** 2)
        else:
            spec = xp.log(xp.cosh(om)) + 0.5 * xp.tanh(om) / om * (Eh2 - om ** 2)
        w.equal("k_func=E[surrogate of log(1+link(h))]", val, spec)
        w.equal("omega_dagger=sqrt(E[h^2])", obj._get_omega_dagger(p_x, W_i) ** 2, Eh2)
    return ob


def _tilted(w, px, g, wv, nu1, c1, Aq, aq, tag):
    """mass' * E'[(Aq x + aq)^2] for the measure p_x(x) * exp(-g/2 (w'x)^2 + nu1'x + c1), batch n aligned (axiom G1);
    the inverse / log-determinant of the tilted precision by Sherman-Morrison / the rank-one determinant lemma (ghost steps)"""
    xp = w.xp
    dx = w.size("Dx")
    L1 = px["L"] + g[:, None, None] * xp.einsum("i,j->ij", wv, wv)[None]
    Sw = xp.einsum("nij,j->ni", px["S"], wv)
    den = 1.0 + g * xp.einsum("i,ni->n", wv, Sw)
    S1 = px["S"] - (g / den)[:, None, None] * xp.einsum("ni,nj->nij", Sw, Sw)
    w.ld_rule(L1, -px["ld"] + xp.log(den), "GtvLemmas.det_rank_one_update")
    w.have_inverse(L1, S1, "Sherman-Morrison (rank-one update of the inverse)")
    nux = xp.einsum("nij,nj->ni", px["L"], px["mu"])
    cx = -(0.5 * xp.einsum("ni,ni->n", px["mu"], nux) + 0.5 * dx * w.log2pi() + 0.5 * px["ld"])

    def moment(nu_extra, c_extra, fourth=None):
        nu = nux + nu1 + nu_extra
        c = cx + c1 + c_extra
        S1i = w.inv(L1)
        lnm = 0.5 * xp.einsum("ni,nij,nj->n", nu, S1i, nu) + 0.5 * dx * w.log2pi() - 0.5 * w.logdet(L1) + c
        m = xp.einsum("nij,nj->ni", S1i, nu)
        q = xp.einsum("ni,ni->n", Aq, m) + aq
        vq = xp.einsum("ni,nij,nj->n", Aq, S1i, Aq)
        if fourth is None:
            return xp.exp(lnm) * (q ** 2 + vq)
        # E'[h^2 q^2] for h = w'x + b0 (Isserlis): E[h^2]E[q^2] + 2 Cov(h,q)^2 + 4 E[h]E[q]Cov(h,q)
        eh = xp.einsum("i,ni->n", wv, m) + fourth
        vh = xp.einsum("i,nij,j->n", wv, S1i, wv)
        chq = xp.einsum("i,nij,nj->n", wv, S1i, Aq)
        return xp.exp(lnm) * ((vh + eh ** 2) * (vq + q ** 2) + 2.0 * chq ** 2 + 4.0 * eh * q * chq)
    return moment


def _mk_lb_integrals(kind, fourth=False):
    def ob(w):
        xp = w.xp
        obj, par = gen_hetero(w, kind, "square")
        p_x, px = SP.gen_pdf(w, "x", "N", "Dx")
        W_i, w0, wv = _row(w, "wi")
        a_i = w.arr("ai", "Dy")
        y = w.arr("y", "N", "Dy")
        om = w.pos("om", "N")
        if fourth:
            val, val4 = obj._lower_bound_integrals(p_x=p_x, y=y, W_i=W_i, a_i=a_i, omega_star=om, compute_fourth_order=True)   # REAL
        else:
            val = obj._lower_bound_integrals(p_x, y, W_i, a_i, om)        # REAL
        b0 = w0[0]
        # q(x) = a_i'(y_n - b) - a_i' M x
        Aq = -xp.einsum("d,di->i", a_i, par["M"][0])[None] + 0.0 * px["mu"]
        aq = xp.einsum("d,nd->n", a_i, y - par["b"])
        if kind == "exp":
            f = xp.log(xp.cosh(om / 2.0)) + xp.log(2.0 + 0.0 * om)
            g = 0.5 * xp.tanh(om / 2.0) / om
            nu1 = (-(g * b0) + 0.5)[:, None] * wv[None]
            c1 = -f - 0.5 * g * (b0 ** 2 - om ** 2) + 0.5 * b0
            moment = _tilted(w, px, g, wv, nu1, c1, Aq, aq, "e")
            spec = moment(0.0 * nu1, 0.0 * c1)
            spec4 = moment(0.0 * nu1, 0.0 * c1, fourth=b0) if fourth else None
        else:
            g = xp.tanh(om) / om
            nu1 = -(g * b0)[:, None] * wv[None]
            c1 = -xp.log(xp.cosh(om)) - 0.5 * g * (b0 ** 2 - om ** 2)
            moment = _tilted(w, px, g, wv, nu1, c1, Aq, aq, "c")
            ln2 = xp.log(2.0 + 0.0 * om)
            spec = moment(wv[None] + 0.0 * nu1, b0 - ln2) + moment(-wv[None] + 0.0 * nu1, -b0 - ln2) - moment(0.0 * nu1, 0.0 * c1)
            spec4 = (moment(wv[None] + 0.0 * nu1, b0 - ln2, fourth=b0) + moment(-wv[None] + 0.0 * nu1, -b0 - ln2, fourth=b0)
                     - moment(0.0 * nu1, 0.0 * c1, fourth=b0)) if fourth else None
        w.equal("lower_bound_integral=E[(a'(y-Mx-b))^2 * surrogate of link/(1+link)]", xp.reshape(val, (w.size("N"),)), spec)
        if fourth:
            w.equal("fourth_order=E[h^2 (a'(y-Mx-b))^2 * surrogate]", xp.reshape(val4, (w.size("N"),)), spec4)
    return ob


def _mk_assembled(kind):
    """integrate_log_conditional_y(p_x, y) assembled from its callees' contracts (modular): the returned value is
       -1/2 ( E[(y-Mx-b)' L (y-Mx-b)] - sum_k LBI_k + ln det Sigma + sum_k KF_k + Dy ln 2 pi )
    with LBI_k / KF_k the real _lower_bound_integrals / k_func (each under its own obligation above) evaluated at the
    variational parameters the pipeline itself uses (omega_dagger from the real _get_omega_dagger; omega_star from the
    lax.while_loop contract)."""
    def ob(w):
        xp = w.xp
        if kind == "relu":
            w.literal_arange = True
        obj, par = gen_hetero(w, kind, "square")
        p_x, px = SP.gen_pdf(w, "x", "N", "Dx")
        y = w.arr("y", "N", "Dy")
        val = obj.integrate_log_conditional_y(p_x, y)                    # REAL (vmap over noise units, while_loop contract)
        Wm = obj.W
        A_inv = xp.einsum("abc,acd->abd", obj.Lambda, par["A"])[0]          # [Dy, Dk]
        om_dag = w.vmap(lambda Wi: obj._get_omega_dagger(p_x=p_x, W_i=Wi))(Wm)
        k_om = w.vmap(lambda Wi, om: obj.k_func(p_x=p_x, W_i=Wi, omega_dagger=om))(Wm, om_dag)        # [Dk, N]
        om_star = w.vmap(lambda Wi, ai: obj._get_omega_star(p_x=p_x, y=y, W_i=Wi, a_i=ai))(Wm, A_inv.T)
        lbi = w.vmap(lambda Wi, ai, om: obj._lower_bound_integrals(p_x, y, Wi, ai, om))(Wm, A_inv.T, om_star)   # [Dk, 1, N]
        # homoscedastic part from first principles (Wick): E[(y - Mx - b)' L (y - Mx - b)]
        L0 = obj.Lambda[0]
        r0 = y - par["b"] - xp.einsum("ij,nj->ni", par["M"][0], px["mu"])
        hom = xp.einsum("ni,ij,nj->n", r0, L0, r0) + xp.einsum("ji,jk,kl,nli->n", par["M"][0], L0, par["M"][0], px["S"])
        spec = -0.5 * (hom - xp.sum(lbi, axis=0)[0] + obj.ln_det_Sigma + xp.sum(k_om, axis=0) + w.size("Dy") * w.log2pi())
        w.equal("integrate_log_conditional_y=assembly of the callee contracts", val, spec)
    return ob


def _mk_heaviside_logdet():
    """step link: get_lb_log_det EQUALS E[ln det Sigma(x)] = ln det(AA') + ln 2 * sum_k P(h_k >= 0)  (det_gram_diag)"""
    def ob(w):
        xp = w.xp
        w.literal_arange = True
        obj, par = gen_hetero(w, "heaviside", "square")
        p_x, px = SP.gen_pdf(w, "x", "N", "Dx")
        m = xp.einsum("ki,ni->nk", par["wv"], px["mu"]) + par["w0"][None]
        s = xp.sqrt(xp.einsum("ki,nij,kj->nk", par["wv"], px["S"], par["wv"]))
        S0 = xp.einsum("aij,akj->aik", par["A"], par["A"])
        spec = w.logdet(S0) + xp.log(2.0 + 0.0 * m[:, 0]) * xp.sum(w.Phi(m / s), axis=1)
        w.equal("get_lb_log_det=E[ln det Sigma(x)] (exact for the step link)", obj.get_lb_log_det(p_x), spec)
    return ob


def _mk_heaviside_term(Dx="Dx"):
    """step link, one noise unit (Dx = 1 is a separate branch of the code: x = (h - w0)/w): get_lb_heteroscedastic_term_i EQUALS 1/2 E[g^2 1[h >= 0]] for the jointly Gaussian pair
    g = a'(y - Mx - b), h = w'x + w0 -- from the conditional law of g given h (G3) and the truncated moments of h (G4)"""
    def ob(w):
        xp = w.xp
        w.literal_arange = True
        obj, par = gen_hetero(w, "heaviside", "square", Dx)
        p_x, px = SP.gen_pdf(w, "x", "N", Dx)
        y = w.arr("y", "N", "Dy")
        W_i, w0, wv = _row(w, "wi", Dx)
        a_i = w.arr("ai", "Dy")
        val = obj.get_lb_heteroscedastic_term_i(p_x, y, W_i, a_i)         # REAL  [1, N]
        M, b = par["M"][0], par["b"][0]
        mu, Sx = px["mu"], px["S"]
        r0 = y - b[None] - xp.einsum("ij,nj->ni", M, mu)
        eg = xp.einsum("d,nd->n", a_i, r0)
        aM = xp.einsum("d,di->i", a_i, M)
        vg = xp.einsum("i,nij,j->n", aM, Sx, aM)
        m = xp.einsum("i,ni->n", wv, mu) + w0
        s2 = xp.einsum("i,nij,j->n", wv, Sx, wv)
        s = xp.sqrt(s2)
        cgh = -xp.einsum("i,nij,j->n", aM, Sx, wv)
        c1 = cgh / s2
        c0 = eg - c1 * m
        al = -m / s
        J0 = 1.0 - w.Phi(al)
        J1 = w.phi(al)
        J2 = al * w.phi(al) + J0
        Eh0, Eh1, Eh2 = J0, m * J0 + s * J1, m ** 2 * J0 + 2.0 * m * s * J1 + s2 * J2
        Eg2 = c0 ** 2 * Eh0 + 2.0 * c0 * c1 * Eh1 + c1 ** 2 * Eh2 + (vg - cgh ** 2 / s2) * Eh0
        w.equal("heteroscedastic_term_i=E[g^2 1[h>=0]]/2 (exact)", val, (0.5 * Eg2)[None])
    return ob


def _mk_heaviside_quadratic():
    """assembly (modular): get_lb_quadratic_term = E[(y-Mx-b)' L (y-Mx-b)] - sum_k term_k, with term_k the real
    get_lb_heteroscedastic_term_i at (W_k, a_k = column k of L A) -- exact for the step link because
    Sigma(x)^-1 = L - sum_k a_k a_k' [h_k >= 0]/2 in the regime Da = Dy"""
    def ob(w):
        xp = w.xp
        w.literal_arange = True
        obj, par = gen_hetero(w, "heaviside", "square")
        p_x, px = SP.gen_pdf(w, "x", "N", "Dx")
        y = w.arr("y", "N", "Dy")
        val = obj.get_lb_quadratic_term(p_x, y)                           # REAL  [1, N]
        M, b = par["M"][0], par["b"][0]
        L0 = obj.Lambda[0]
        r0 = y - b[None] - xp.einsum("ij,nj->ni", M, px["mu"])
        hom = xp.einsum("ni,ij,nj->n", r0, L0, r0) + xp.einsum("ji,jk,kl,nli->n", M, L0, M, px["S"])
        A_inv = xp.einsum("abc,acd->abd", obj.Lambda, par["A"])[0]
        terms = w.vmap(lambda Wi, ai: obj.get_lb_heteroscedastic_term_i(p_x, y, Wi, ai))(obj.W, A_inv.T)     # [Dk, 1, N]
        w.equal("get_lb_quadratic_term=homoscedastic - sum_k term_k", val, hom[None] - xp.sum(terms, axis=0))
    return ob


REG.ob("HeteroscedasticHeavisideConditional.get_lb_heteroscedastic_term_i/Dx=1", sorts=["N", "Dy"], order={("Dy", "Dy"): False},
       funcs=["approximate_conditional.HeteroscedasticHeavisideConditional.get_lb_heteroscedastic_term_i", "pdf.GaussianPDF.get_density_of_linear_sum",
              "experimental.truncated_measure.TruncatedGaussianMeasure.integrate_x", "experimental.truncated_measure.TruncatedGaussianMeasure.integrate_x_pow_2"],
       axioms=["G1 Gaussian integral", "G3 conditional law of a jointly Gaussian pair", "G4 truncated Gaussian integrals"])(_mk_heaviside_term(1))
REG.ob("HeteroscedasticHeavisideConditional.get_lb_heteroscedastic_term_i", sorts=["N", "Dx", "Dy"], order={("Dy", "Dy"): False},
       funcs=["approximate_conditional.HeteroscedasticHeavisideConditional.get_lb_heteroscedastic_term_i", "pdf.GaussianPDF.get_density_of_linear_sum",
              "pdf.GaussianPDF.get_marginal", "pdf.GaussianPDF.condition_on_explicit",
              "experimental.truncated_measure.TruncatedGaussianMeasure.integrate_x", "experimental.truncated_measure.TruncatedGaussianMeasure.integrate_x_pow_2"],
       axioms=["G1 Gaussian integral", "G3 conditional law of a jointly Gaussian pair", "G4 truncated Gaussian integrals"])(_mk_heaviside_term())
REG.ob("HeteroscedasticHeavisideConditional.get_lb_quadratic_term/assembly", sorts=["N", "Dx", "Dy"], order={("Dy", "Dy"): False},
       funcs=["approximate_conditional.HeteroscedasticConditional.get_lb_quadratic_term"],
       axioms=["jax.vmap: map over the leading axis", "G2 Isserlis/Wick"])(_mk_heaviside_quadratic())


REG.ob("HeteroscedasticHeavisideConditional.get_lb_log_det", sorts=["N", "Dx", "Dy"], order={("Dy", "Dy"): False},
       funcs=["approximate_conditional.HeteroscedasticHeavisideConditional.get_lb_log_det", "pdf.GaussianPDF.get_density_of_linear_sum",
              "experimental.truncated_measure.TruncatedGaussianMeasure.integral"],
       axioms=["G4 truncated Gaussian integrals", "jax.vmap: map over the leading axis"], lemmas=["GtvLemmas.det_gram_diag"])(_mk_heaviside_logdet())


for _kind in ("exp", "coshm1"):
    _cls = LINKS[_kind]
    REG.ob(f"{_cls}.integrate_log_conditional_y/assembly", sorts=["N", "Dx", "Dy"],
           funcs=[f"approximate_conditional.HeteroscedasticConditional.{m}" for m in ("integrate_log_conditional_y", "get_lb_log_det",
                  "get_lb_quadratic_term", "get_lb_heteroscedastic_term_i", "_get_omega_star")] + [f"approximate_conditional.{_cls}._get_omega_dagger"],
           axioms=G6 + ["lax.while_loop fixed point: any positive value (contract)", "jax.vmap: map over the leading axis"],
           order={("Dy", "Dy"): False})(_mk_assembled(_kind))
    REG.ob(f"{_cls}.k_func", sorts=["N", "Dx", "Dy"], funcs=[f"approximate_conditional.{_cls}.k_func", f"approximate_conditional.{_cls}._get_omega_dagger"],
           axioms=G6, order={("Dy", "Dy"): False})(_mk_kfunc(_kind))
    REG.ob(f"{_cls}._lower_bound_integrals", sorts=["N", "Dx", "Dy"], funcs=[f"approximate_conditional.{_cls}._lower_bound_integrals"],
           axioms=G6, lemmas=["GtvLemmas.det_rank_one_update"], order={("Dy", "Dy"): False})(_mk_lb_integrals(_kind))
    REG.ob(f"{_cls}._lower_bound_integrals/fourth_order", sorts=["N", "Dx", "Dy"], funcs=[f"approximate_conditional.{_cls}._lower_bound_integrals",
           "measure.GaussianMeasure.integrate_general_quartic_inner"],
           axioms=G6, lemmas=["GtvLemmas.det_rank_one_update"], order={("Dy", "Dy"): False})(_mk_lb_integrals(_kind, True))


# ------------------------------------------------------------------ (b) rectified-linear link: building blocks of its lower bound
G6R = ["G6 (ReLU): for h, w >= 0  ln(1+h) <= ln(1+w) + (h-w)/(1+w)  (concavity) and  h/(1+h) >= h exp(-ln(1+w) - (h-w)/(1+w))",
       "G1 Gaussian integral", "G3 conditional law of a jointly Gaussian pair", "G4 truncated Gaussian integrals"]


def _half_line_moments(w, m, s2, kmax):
    """H_k = int_0^inf h^k N(h; m, s2) dh, k = 0..kmax:  H_0 = Phi(m/s), H_1 = m H_0 + s phi(m/s),
    H_k = m H_{k-1} + (k-1) s2 H_{k-2}  (integration by parts; the boundary term vanishes at 0 for k >= 2)"""
    xp = w.xp
    s = xp.sqrt(s2)
    al = -m / s
    H = [1.0 - w.Phi(al)]
    H.append(m * H[0] + s * w.phi(al))
    for k in range(2, kmax + 1):
        H.append(m * H[k - 1] + (k - 1) * s2 * H[k - 2])
    return H


def _mk_relu_kfunc():
    def ob(w):
        xp = w.xp
        w.literal_arange = True
        obj, par = gen_hetero(w, "relu", "square")
        p_x, px = SP.gen_pdf(w, "x", "N", "Dx")
        W_i, w0, wv = _row(w, "wi")
        om = w.pos("om", "N")
        m = xp.einsum("i,ni->n", wv, px["mu"]) + w0
        s2 = xp.einsum("i,nij,j->n", wv, px["S"], wv)
        H = _half_line_moments(w, m, s2, 1)
        w.equal("omega_dagger=E[relu(h)]", obj._get_omega_dagger(p_x, W_i), H[1])
        val = obj.k_func(p_x, W_i, om)                                     # REAL
        spec = H[0] * xp.log(1.0 + om) + (H[1] - H[0] * om) / (1.0 + om)
        w.equal("k_func=E[1[h>=0] (ln(1+w) + (h-w)/(1+w))]", val, spec)
    return ob


def _mk_relu_lb_integrals(fourth, Dx="Dx"):
    def ob(w):
        xp = w.xp
        w.literal_arange = True
        obj, par = gen_hetero(w, "relu", "square", Dx)
        p_x, px = SP.gen_pdf(w, "x", "N", Dx)
        y = w.arr("y", "N", "Dy")
        W_i, w0, wv = _row(w, "wi", Dx)
        a_i = w.arr("ai", "Dy")
        om = w.pos("om", "N")
        if fourth:
            cub, quart = obj._lower_bound_integrals(p_x=p_x, y=y, W_i=W_i, a_i=a_i, omega_star=om, compute_fourth_order=True)   # REAL
        else:
            cub = obj._lower_bound_integrals(p_x, y, W_i, a_i, om)        # REAL  [1, N]
        M, b = par["M"][0], par["b"][0]
        mu, Sx = px["mu"], px["S"]
        r0 = y - b[None] - xp.einsum("ij,nj->ni", M, mu)
        eg = xp.einsum("d,nd->n", a_i, r0)
        aM = xp.einsum("d,di->i", a_i, M)
        vg = xp.einsum("i,nij,j->n", aM, Sx, aM)
        m = xp.einsum("i,ni->n", wv, mu) + w0
        s2 = xp.einsum("i,nij,j->n", wv, Sx, wv)
        cgh = -xp.einsum("i,nij,j->n", aM, Sx, wv)
        c1 = cgh / s2
        c0 = eg - c1 * m
        v = vg - cgh ** 2 / s2
        # surrogate of link/(1+link) on h >= 0:  h * exp(nu h + lb),  nu = -1/(1+w), lb = -ln(1+w) + w/(1+w)
        nu = -1.0 / (1.0 + om)
        lb = -xp.log(1.0 + om) + om / (1.0 + om)
        Z = xp.exp(lb + nu * m + 0.5 * nu ** 2 * s2)                       # N(h; m, s2) e^{nu h + lb} = Z N(h; m + nu s2, s2)
        H = _half_line_moments(w, m + nu * s2, s2, 4 if fourth else 3)
        w.equal("cubic=E[1[h>=0] h e^{nu h+lb} g^2]", cub, (Z * (c0 ** 2 * H[1] + 2.0 * c0 * c1 * H[2] + c1 ** 2 * H[3] + v * H[1]))[None])
        if fourth:
            w.equal("quartic=E[1[h>=0] h^2 e^{nu h+lb} g^2]", quart,
                    (Z * (c0 ** 2 * H[2] + 2.0 * c0 * c1 * H[3] + c1 ** 2 * H[4] + v * H[2]))[None])
    return ob


_RC = "HeteroscedasticReLUConditional"
REG.ob(f"{_RC}.k_func", sorts=["N", "Dx", "Dy"], order={("Dy", "Dy"): False},
       funcs=[f"approximate_conditional.{_RC}.k_func", f"approximate_conditional.{_RC}._get_omega_dagger", "pdf.GaussianPDF.get_density_of_linear_sum",
              "experimental.truncated_measure.TruncatedGaussianMeasure.integral", "experimental.truncated_measure.TruncatedGaussianMeasure.integrate_x"],
       axioms=G6R)(_mk_relu_kfunc())
for _fourth in (False, True):
    REG.ob(f"{_RC}._lower_bound_integrals/fourth_order={_fourth}/Dx=1", sorts=["N", "Dy"], order={("Dy", "Dy"): False},
           funcs=[f"approximate_conditional.{_RC}._lower_bound_integrals", "pdf.GaussianPDF.get_density_of_linear_sum",
                  "factor.LinearFactor._hadamard_with_measure", "experimental.truncated_measure.TruncatedGaussianMeasure.integrate_x_pow_k"],
           axioms=G6R)(_mk_relu_lb_integrals(_fourth, 1))
    REG.ob(f"{_RC}._lower_bound_integrals/fourth_order={_fourth}", sorts=["N", "Dx", "Dy"], order={("Dy", "Dy"): False},
           funcs=[f"approximate_conditional.{_RC}._lower_bound_integrals", "pdf.GaussianPDF.get_density_of_linear_sum", "pdf.GaussianPDF.get_marginal",
                  "pdf.GaussianPDF.condition_on_explicit", "factor.LinearFactor._hadamard_with_measure",
                  "experimental.truncated_measure.TruncatedGaussianMeasure.integrate_x_pow_k"],
           axioms=G6R)(_mk_relu_lb_integrals(_fourth))

# The assembly integrate_log_conditional_y / get_lb_* is the base-class method (HeteroscedasticConditional), proved against its
# callees' contracts in the exp / cosh-1 obligations above; the ReLU class overrides only the callees (k_func,
# _lower_bound_integrals, _get_omega_dagger), each under its own obligation here.  (Running the assembly once more through the
# ReLU callees exceeds the kernel's canonicalisation budget: 18 bound indices in one component.)


def _mk_ctor_refusals(kind):
    """documented refusals of the constructor: more than one component; more rows than columns in A; more noise units than
    columns of A"""
    def ob(w):
        AC = SP.mods()["approximate_conditional"]
        xp = w.xp
        cls = getattr(AC, LINKS[kind])
        def build(R, Dy, Da, Dk):
            A = w.arr("Ab" + str(Da) + str(Dy), R, Dy, Da)
            M, b = w.arr("Mb" + str(Dy), R, Dy, "Dx"), w.arr("bb" + str(Dy), R, Dy)
            W = xp.concatenate([w.arr("w0b" + str(Dk), Dk)[:, None], w.arr("wvb" + str(Dk), Dk, "Dx")], axis=1)
            return cls(M=M, b=b, A=A, W=W)
        w.raises("R>1-refused", (NotImplementedError,), lambda: build("R", "Dy", "Dy", "Dy"))
        w.raises("Dy>Da-refused", (NotImplementedError,), lambda: build(1, "Dbig", "Dsmall", "Dsmall"))
        w.raises("Dk>Da-refused", (NotImplementedError,), lambda: build(1, "Dsmall", "Dsmall", "Dbig"))
    return ob


for _kind in ("exp", "heaviside"):
    REG.ob(f"{LINKS[_kind]}.__post_init__/refusals", sorts=["R", "Dy", "Dx", "Dsmall", "Dbig"],
           order={("Dbig", "Dsmall"): True, ("Dsmall", "Dbig"): False, ("Dy", "Dy"): False},
           sizes=[dict(R=2, Dy=2, Dx=3, Dsmall=2, Dbig=4)],
           funcs=["approximate_conditional.HeteroscedasticConditional.__post_init__"])(_mk_ctor_refusals(_kind))


def _mk_update_omega(kind):
    """one fixed-point update of the variational parameter (the body of the lax.while_loop): assembled from the real
    _lower_bound_integrals (own obligations above):  exp / cosh-1: omega' = sqrt(I4 / I2),  ReLU: omega' = I4 / I3"""
    def ob(w):
        xp = w.xp
        if kind == "relu":
            w.literal_arange = True
        obj, par = gen_hetero(w, kind, "square")
        p_x, px = SP.gen_pdf(w, "x", "N", "Dx")
        y = w.arr("y", "N", "Dy")
        W_i, w0, wv = _row(w, "wi")
        a_i = w.arr("ai", "Dy")
        om = w.pos("om", "N")
        new = obj._update_omega_star(p_x=p_x, y=y, W_i=W_i, a_i=a_i, omega_star=om)         # REAL
        lo, hi = obj._lower_bound_integrals(p_x=p_x, y=y, W_i=W_i, a_i=a_i, omega_star=om, compute_fourth_order=True)
        # (written with the operations of the update itself: the callee values are large; the clause pins the combination)
        if kind == "relu":
            w.equal("omega'=I4/I3", new, (hi / lo)[0])
        else:
            w.equal("omega'=sqrt(I4/I2)", new, xp.sqrt(hi / lo)[0])
    return ob


for _kind in ("exp", "coshm1", "relu"):
    _cls = LINKS[_kind]
    _own = _cls if _kind == "relu" else "HeteroscedasticConditional"
    REG.ob(f"{_cls}._update_omega_star", sorts=["N", "Dx", "Dy"], order={("Dy", "Dy"): False},
           funcs=[f"approximate_conditional.{_own}._update_omega_star"],
           axioms=["a quantity tested with `!= 0` is non-zero"] if _kind == "relu" else [])(_mk_update_omega(_kind))
