"""C17: heteroscedastic conditionals -- the part a contract can decide (DESIGN §6-C17, §11):
(a) coherent p(y|x): condition_on_x(x) has mean Mx+b, covariance AA' + A_k diag(link(Wx+w0)) A_k', and its precision and
    log-determinant ARE the inverse and log-determinant of that covariance, for the four links, in the square regime
    Da = Dy (= Dk) and in the wide regime Da > Dy.
(b) validity of the lower bounds and (c) their tightness are variational / asymptotic statements about a fixed point of
    lax.while_loop and are NOT covered."""
from ..runner import Registry
from .. import spec as SP
from .. import matrices as MX
from .wf import wf_measure

REG = Registry("C17")
LINKS = {"exp": "HeteroscedasticExpConditional", "coshm1": "HeteroscedasticCoshM1Conditional",
         "heaviside": "HeteroscedasticHeavisideConditional", "relu": "HeteroscedasticReLUConditional"}


def link_spec(w, kind, h):
    xp = w.xp
    if kind == "exp":
        return xp.exp(h)
    if kind == "coshm1":
        return xp.cosh(h) - 1.0
    if kind == "heaviside":
        return w.step(h)
    return h * w.step(h)


def gen_hetero(w, kind, regime):
    """regime 'square': A [1,D,D] invertible, Dk = Da = Dy;  'wide': A = [A_k | A_r] [1,Dy,Dk+Dr], Da > Dy"""
    AC = SP.mods()["approximate_conditional"]
    xp = w.xp
    cls = getattr(AC, LINKS[kind])
    if regime == "square":
        Dy = Dk = "Dy"
        if w.symbolic:
            from .. import shim as S
            A = w.arr("Ah", 1, "Dy", "Dy")
            Ai = w.arr("Ahi", 1, "Dy", "Dy")
            w.ctx.inv_pairs["Ah"] = "Ahi"
            w.ctx.inv_pairs["Ahi"] = "Ah"
            w.assumptions.add("A is square and invertible with inverse Ahi (regime Da = Dy)")
        else:
            import numpy as np
            n = w.sizes["Dy"]
            A_ = w.rng.standard_normal((1, n, n)) + 2.0 * np.eye(n)
            A, Ai = xp.asarray(A_), xp.asarray(np.linalg.inv(A_))
        Ak = A
    else:
        Dy, Dk = "Dy", "Dk"
        Ak, Ar = w.arr("Ak", 1, "Dy", "Dk"), w.arr("Ar", 1, "Dy", "Dr")
        A = xp.concatenate([Ak, Ar], axis=2)
        Ai = None
    M, b = w.arr("Mh", 1, Dy, "Dx"), w.arr("bh", 1, Dy)
    wv, w0 = w.arr("wv", Dk, "Dx"), w.arr("w0", Dk)
    W = xp.concatenate([w0[:, None], wv], axis=1)
    obj = cls(M=M, b=b, A=A, W=W)                                       # REAL constructor
    return obj, dict(A=A, Ak=Ak, Ai=Ai, M=M, b=b, wv=wv, w0=w0)


def _mk_cond(kind, regime):
    def ob(w):
        xp = w.xp
        obj, par = gen_hetero(w, kind, regime)
        x = w.arr("x", "N", "Dx")
        S0 = xp.einsum("aij,akj->aik", par["A"], par["A"])                 # AA'
        if regime == "square":
            # ghost: (AA')^-1 = Ai' Ai  (GtvLemmas.transpose_mul_inv_gram_mul; checked by multiplication)
            w.have_inverse(S0, xp.einsum("aji,ajk->aik", par["Ai"], par["Ai"]), "inverse of the Gram matrix of an invertible A")
        h = xp.einsum("ki,ni->nk", par["wv"], x) + par["w0"][None]
        D = link_spec(w, kind, h)                                          # [N, Dk]
        Sx = S0 + xp.einsum("ik,nk,jk->nij", par["Ak"][0], D, par["Ak"][0])
        if regime == "square":
            # GtvLemmas.det_gram_diag:  ln det(A (1+D) A') = ln det(AA') + sum_k ln(1 + D_k)
            w.ld_rule(Sx, w.logdet(S0) + xp.sum(xp.log(1.0 + D), axis=1), "GtvLemmas.det_gram_diag")
        p = obj.condition_on_x(x)                                          # REAL
        if regime == "square":
            # ln det Lambda(x) = - ln det Sigma(x) because Lambda(x) Sigma(x) = I (clause p(y|x)/wf/Sigma*Lambda=I below;
            # GtvLemmas.det_inv_of_mul_eq_one)
            w.ld_rule(p.Lambda, -(w.logdet(S0) + xp.sum(xp.log(1.0 + D), axis=1)), "GtvLemmas.det_inv_of_mul_eq_one")
        w.equal("mu=Mx+b", p.mu, xp.einsum("ij,nj->ni", par["M"][0], x) + par["b"][0][None])
        w.equal("Sigma=AA'+A_k diag(link(Wx+w0)) A_k'", p.Sigma, Sx)
        wf_measure(w, "p(y|x)", p, is_pdf=True)
    return ob


def _register():
    for kind, cls in LINKS.items():
        F = [f"approximate_conditional.HeteroscedasticConditional.{m}" for m in ("__post_init__", "linear_layer", "get_conditional_cov", "condition_on_x")] + \
            [f"approximate_conditional.{cls}.link_function", "conditional.ConditionalGaussianPDF.get_conditional_mu"]
        REG.ob(f"{cls}.condition_on_x/Da=Dy", sorts=["Dy", "Dx", "N"], funcs=F, order={("Dy", "Dy"): False},
               skip_clauses=(["p(y|x)/wf/Sigma*Lambda=I", "p(y|x)/wf/mu=Sigma*nu"] if kind == "relu" else []),
               note=("rectified-linear link: the rational identity with denominator 1 + h*[h>=0] (a sum with an inner contraction) is "
                     "outside the kernel's oriented rule; Sigma*Lambda=I and mu=Sigma*nu are not covered for this link" if kind == "relu" else ""),
               lemmas=["GtvLemmas.det_gram_diag", "GtvLemmas.transpose_mul_inv_gram_mul", "GtvLemmas.det_inv_of_mul_eq_one"])(_mk_cond(kind, "square"))
        REG.ob(f"{cls}.condition_on_x/Da>Dy", sorts=["Dy", "Dx", "Dk", "Dr", "N"], funcs=F,
               order={("Dy", "Dk+Dr"): False, ("Dk", "Dk+Dr"): False},
               sizes=[dict(Dy=2, Dx=3, Dk=2, Dr=2, N=3), dict(Dy=3, Dx=2, Dk=2, Dr=3, N=2)])(_mk_cond(kind, "wide"))


_register()
