"""C15: specialised representations agree with the general one (DESIGN §6-C15).
Literal statement: for equal parameters, every operation of the specialised class gives the same result as the general
full-matrix class (both extracted from the real code).  The direct obligations of the specialised kinds against the
spec (C01-C14) are stronger and are listed in the respective properties."""
from ..runner import Registry
from .. import spec as SP
from .. import lemmas as LM
from .common import gen_factor, gen_measure
from .C08 import LAYOUTS

REG = Registry("C15")


def _fields(w, pfx, a, b, names):
    for n in names:
        va, vb = getattr(a, n, None), getattr(b, n, None)
        if va is None and vb is None:
            continue
        if va is None or vb is None:
            w.check(f"{pfx}/{n}", False, f"{n}: one side is None")
            continue
        w.equal(f"{pfx}/{n}", va, vb)


MFIELDS = ("Lambda", "nu", "ln_beta", "Sigma", "ln_det_Sigma", "ln_det_Lambda")


def _mk_factor(kind, R, ukind):
    def ob(w):
        xp = w.xp
        F = SP.mods()["factor"]
        s, sv = gen_factor(w, kind, "f", R, "D")
        g = F.ConjugateFactor(Lambda=s.Lambda, nu=s.nu, ln_beta=s.ln_beta)         # general object, same parameters
        x = w.arr("x", "N", "D")
        w.equal("evaluate_ln", s.evaluate_ln(x), g.evaluate_ln(x))
        w.equal("evaluate", s.evaluate(x), g.evaluate(x))
        if R != 1:
            xe = w.arr("xe", R, "D")
            w.equal("evaluate_ln/element_wise", s.evaluate_ln(xe, element_wise=True), g.evaluate_ln(xe, element_wise=True))
            rho = w.index_map("rho", "Rn", R)
            w.equal("slice", s.slice(rho).evaluate_ln(x), g.slice(rho).evaluate_ln(x))
        w.equal("product", s.product().evaluate_ln(x), g.product().evaluate_ln(x))
        u, uv = gen_factor(w, ukind, "u", "Ru", "D")
        if kind == "rank-one" and "S" in uv:
            LM.rank_one_update(w, uv["L"], uv["S"], -uv["ld"], sv["g"], sv["v"], outer=True)
        if kind in ("linear", "constant") and "S" in uv:
            LM.tiled(w, uv["L"], -uv["ld"], 1 if R == 1 else w.size(R))
        for uf in (False, True):
            rs, rg = u.multiply(s, update_full=uf), u.multiply(g, update_full=uf)
            if uf and ukind.endswith("+cache"):
                # ghost: whatever covariance the shortcut produced is the inverse of the new precision
                w.have_inverse(rg.Lambda, rs.Sigma, "shortcut covariance is the inverse (rank-one: Sherman-Morrison)")
            _fields(w, f"multiply/update_full={uf}", rs, rg, MFIELDS)
        w.equal("integrate_log_factor", u.integrate("log u(x)", factor=s) if R == 1 else u.integrate("log u(x)", factor=s.product()),
                u.integrate("log u(x)", factor=g) if R == 1 else u.integrate("log u(x)", factor=g.product()))
    return ob


def _mk_factor_hadamard(kind, ukind):
    def ob(w):
        F = SP.mods()["factor"]
        s, sv = gen_factor(w, kind, "f", "R", "D")
        g = F.ConjugateFactor(Lambda=s.Lambda, nu=s.nu, ln_beta=s.ln_beta)
        u, uv = gen_factor(w, ukind, "u", "R", "D")
        if kind == "rank-one" and "S" in uv:
            LM.rank_one_update(w, uv["L"], uv["S"], -uv["ld"], sv["g"], sv["v"], outer=False)
        for uf in (False, True):
            rs, rg = u.hadamard(s, update_full=uf), u.hadamard(g, update_full=uf)
            if uf and ukind.endswith("+cache"):
                w.have_inverse(rg.Lambda, rs.Sigma, "shortcut covariance is the inverse")
            _fields(w, f"hadamard/update_full={uf}", rs, rg, MFIELDS)
    return ob


def _mk_diag_measure(R, cache):
    def ob(w):
        xp = w.xp
        Mm = SP.mods()["measure"]
        d, dv = gen_measure(w, "u", R, "D", cache=cache, diag=True)
        kw = dict(Lambda=d.Lambda, nu=d.nu, ln_beta=d.ln_beta)
        if cache:
            kw.update(Sigma=d.Sigma, ln_det_Lambda=d.ln_det_Lambda, ln_det_Sigma=d.ln_det_Sigma)
        g = Mm.GaussianMeasure(**kw)
        x = w.arr("x", "N", "D")
        w.equal("evaluate_ln", d.evaluate_ln(x), g.evaluate_ln(x))
        w.equal("log_integral", d.log_integral(), g.log_integral())
        w.equal("integrate[x]", d.integrate("x"), g.integrate("x"))
        w.equal("integrate[xx']", d.integrate("xx'"), g.integrate("xx'"))
        A = w.arr("Am", "K", "D")
        w.equal("integrate[(Ax+a)'(Bx+b)]", d.integrate("(Ax+a)'(Bx+b)", A_mat=A, B_mat=A), g.integrate("(Ax+a)'(Bx+b)", A_mat=A, B_mat=A))
        _fields(w, "after-queries", d, g, MFIELDS + ("mu", "lnZ"))
        _fields(w, "get_density", d.get_density(), g.get_density(), MFIELDS + ("mu", "lnZ"))
        _fields(w, "product", d.product(), g.product(), ("Lambda", "nu", "ln_beta"))
        w.equal("product/log_integral", d.product().log_integral(), g.product().log_integral())
    return ob


def _mk_diag_pdf(R, ctor):
    def ob(w):
        P = SP.mods()["pdf"]
        (sa, sc) = w.partition("D", [("sa", "Da"), ("sc", "Dc")])
        d, par = SP.gen_pdf(w, "p", R, "D", ctor=ctor, diag=True)
        kw = dict(Sigma=par["S"], mu=par["mu"])
        if ctor != "Sigma":
            kw["Lambda"] = par["L"]
        if ctor == "Sigma+Lambda+ld":
            kw["ln_det_Sigma"] = par["ld"]
        g = P.GaussianPDF(**kw)
        _fields(w, "ctor", d, g, MFIELDS + ("mu", "lnZ"))
        w.equal("entropy", d.entropy(), g.entropy())
        q, _ = SP.gen_pdf(w, "q", R, "D")
        w.equal("kl_divergence", d.kl_divergence(q), g.kl_divergence(q))
        _fields(w, "get_marginal", d.get_marginal(sa), g.get_marginal(sa), ("Sigma", "mu", "Lambda", "ln_det_Sigma", "nu", "ln_beta"))
    return ob


def _mk_cond_diag_ctor(R, ctor):
    def ob(w):
        C = SP.mods()["conditional"]
        g_ = w.diag_spd("c", SP.batch(R), "Dy")
        M, b = w.arr("Mc", *SP.batch(R), "Dy", "Dx"), w.arr("bc", *SP.batch(R), "Dy")
        kw = dict(Sigma=g_["S"]) if ctor == "Sigma" else dict(Lambda=g_["L"])
        d = C.ConditionalGaussianDiagPDF(M=M, b=b, **kw)
        g = C.ConditionalGaussianPDF(M=M, b=b, **kw)
        _fields(w, "ctor", d, g, ("Sigma", "Lambda", "ln_det_Sigma"))
    return ob


def _general_of_identity(w, h, R):
    """ConditionalGaussianPDF with M = I, b = 0 and the identity conditional's noise"""
    xp = w.xp
    C = SP.mods()["conditional"]
    dy = w.size("Dy")
    eye = xp.eye(dy)[None]
    M = eye if R == 1 else xp.tile(eye, (w.size(R), 1, 1))
    b = 0.0 * xp.einsum("rij->ri", h.par["S"])
    return C.ConditionalGaussianPDF(M=M, b=b, Sigma=h.obj.Sigma, Lambda=h.obj.Lambda, ln_det_Sigma=h.obj.ln_det_Sigma)


def _mk_identity(kind, Rc, Rx):
    def ob(w):
        xp = w.xp
        h = SP.gen_cond_handle(w, kind, "c", Rc, "Dy", "Dy")
        g = _general_of_identity(w, h, Rc)
        s = h.obj
        p_x, px = SP.gen_pdf(w, "x", Rx, "Dy")
        x = w.arr("x", "N", "Dy")
        w.equal("get_conditional_mu", s.get_conditional_mu(x), g.get_conditional_mu(x))
        _fields(w, "condition_on_x", s.condition_on_x(x), g.condition_on_x(x), ("Sigma", "mu", "Lambda", "ln_det_Sigma", "nu", "ln_beta"))
        y = w.arr("y", Rc if Rc != 1 else "N", "Dy")
        _fields(w, "set_y", s.set_y(y), g.set_y(y), ("Lambda", "nu", "ln_beta"))
        _fields(w, "joint", s.affine_joint_transformation(p_x), g.affine_joint_transformation(p_x),
                ("Sigma", "mu", "Lambda", "ln_det_Sigma", "nu", "ln_beta"))
        _fields(w, "marginal", s.affine_marginal_transformation(p_x), g.affine_marginal_transformation(p_x),
                ("Sigma", "mu", "Lambda", "ln_det_Sigma", "nu", "ln_beta"))
        _fields(w, "conditional", s.affine_conditional_transformation(p_x), g.affine_conditional_transformation(p_x),
                ("M", "b", "Sigma", "Lambda", "ln_det_Sigma"))
        w.equal("conditional_entropy", s.conditional_entropy(p_x), g.conditional_entropy(p_x))
        w.equal("mutual_information", s.mutual_information(p_x), g.mutual_information(p_x))
        if Rx == 1:
            # in-place update of the noise covariance: special and general class stay equal, and what they return afterwards too
            new = w.diag_spd("n", SP.batch(Rc), "Dy") if "diag" in kind else w.spd("n", SP.batch(Rc), "Dy")
            s.update_Sigma(new["S"])                                        # REAL (in place)
            g.update_Sigma(new["S"])                                        # REAL (in place)
            _fields(w, "update_Sigma", s, g, ("Sigma", "Lambda", "ln_det_Sigma"))
            _fields(w, "update_Sigma/condition_on_x", s.condition_on_x(x), g.condition_on_x(x), ("Sigma", "mu", "Lambda", "ln_det_Sigma", "nu", "ln_beta"))
            return
        if Rc == 1:
            gq = w.block_gaussian("q", SP.batch(Rx), ["Dy", "Dy"])
            q = SP.mods()["pdf"].GaussianPDF(Sigma=gq["S"], mu=gq["mu"], Lambda=gq["L"], ln_det_Sigma=gq["ld"])
            w.equal("integrate_log_conditional", s.integrate_log_conditional(q), g.integrate_log_conditional(q))
            yy = w.arr("yy", Rx if Rx != 1 else "N", "Dy")
            w.equal("integrate_log_conditional_y", s.integrate_log_conditional_y(p_x, y=yy), g.integrate_log_conditional_y(p_x, y=yy))
    return ob


def _mk_nn(Rc, Rx):
    def ob(w):
        xp = w.xp
        C = SP.mods()["conditional"]
        h = SP.gen_cond_handle(w, "nn", "c", Rc, "Dy", "Dx")
        g = C.ConditionalGaussianPDF(M=h.par["M"], b=h.par["b"], Sigma=h.par["S"], Lambda=h.par["L"], ln_det_Sigma=h.par["ld"])
        p_x, px = SP.gen_pdf(w, "x", Rx, "Dx")
        x = w.arr("x", "N", "Dx")
        _fields(w, "set_control_variable", h.obj.set_control_variable(h.u), g, ("M", "b", "Sigma", "Lambda", "ln_det_Sigma"))
        w.equal("get_conditional_mu", h.obj.get_conditional_mu(x, h.u), g.get_conditional_mu(x))
        _fields(w, "condition_on_x_u", h.obj.condition_on_x_u(x, h.u), g.condition_on_x(x), ("Sigma", "mu", "Lambda", "ln_det_Sigma", "nu", "ln_beta"))
        _fields(w, "__call__", h.obj(x, h.u), g.condition_on_x(x), ("Sigma", "mu", "Lambda", "ln_det_Sigma", "nu", "ln_beta"))
        y = w.arr("y", Rc if Rc != 1 else "N", "Dy")
        _fields(w, "set_y", h.call("set_y", y), g.set_y(y), ("Lambda", "nu", "ln_beta"))
        for name, flds in (("affine_joint_transformation", ("Sigma", "mu", "Lambda", "ln_det_Sigma")),
                           ("affine_marginal_transformation", ("Sigma", "mu", "Lambda", "ln_det_Sigma")),
                           ("affine_conditional_transformation", ("M", "b", "Sigma", "Lambda", "ln_det_Sigma"))):
            _fields(w, name, h.call(name, p_x), getattr(g, name)(p_x), flds)
        w.equal("conditional_entropy", h.call("conditional_entropy", p_x), g.conditional_entropy(p_x))
        w.equal("mutual_information", h.call("mutual_information", p_x), g.mutual_information(p_x))
    return ob


def _register():
    for kind in ("rank-one", "linear", "constant"):
        for R in ("R", 1):
            for ukind in ("measure", "measure+cache"):
                REG.ob(f"factor/{kind}/R={R}/u={ukind}", sorts=(["R", "Rn"] if R != 1 else []) + ["Ru", "D", "N"],
                       funcs=[f"factor.{ {'rank-one': 'OneRankFactor', 'linear': 'LinearFactor', 'constant': 'ConstantFactor'}[kind] }._multiply_with_measure",
                              "factor.ConjugateFactor._multiply_with_measure", "factor.ConjugateFactor._integrate_log_factor"],
                       lemmas=["GtvLemmas.det_rank_one_update"] if kind == "rank-one" else [])(_mk_factor(kind, R, ukind))
        for ukind in ("measure", "measure+cache"):
            REG.ob(f"factor-hadamard/{kind}/u={ukind}", sorts=["R", "D"],
                   funcs=["factor.ConjugateFactor._hadamard_with_measure"],
                   lemmas=["GtvLemmas.det_rank_one_update"] if kind == "rank-one" else [])(_mk_factor_hadamard(kind, ukind))
    for R in ("R", 1):
        for cache in (False, True):
            REG.ob(f"diag-measure/R={R}/cache={int(cache)}", sorts=(["R"] if R != 1 else []) + ["D", "N", "K"],
                   funcs=["measure.GaussianDiagMeasure.invert_lambda", "measure.GaussianDiagMeasure.product", "utils.linalg.invert_diagonal"],
                   lemmas=["GtvLemmas.det_diagonal"])(_mk_diag_measure(R, cache))
        for ctor in ("Sigma", "Sigma+Lambda", "Sigma+Lambda+ld"):
            REG.ob(f"diag-pdf/R={R}/{ctor}", sorts=(["R"] if R != 1 else []) + ["Da", "Dc"],
                   funcs=["pdf.GaussianDiagPDF.__post_init__", "pdf.GaussianDiagPDF.get_marginal", "utils.linalg.invert_diagonal"],
                   lemmas=["GtvLemmas.det_diagonal"])(_mk_diag_pdf(R, ctor))
        for ctor in ("Sigma", "Lambda"):
            REG.ob(f"cond-diag-ctor/R={R}/{ctor}", sorts=(["R"] if R != 1 else []) + ["Dx", "Dy"],
                   funcs=["conditional.ConditionalGaussianDiagPDF.__post_init__", "utils.linalg.invert_diagonal"],
                   lemmas=["GtvLemmas.det_diagonal"])(_mk_cond_diag_ctor(R, ctor))
    for kind in ("identity", "identity-diag"):
        for (Rc, Rx) in LAYOUTS:
            REG.ob(f"{SP.COND_CLS[kind]}-vs-general/R=({Rc},{Rx})", sorts=[s for s in (Rc, Rx) if s != 1] + ["Dy", "N"],
                   funcs=[f"conditional.{SP.COND_CLS[kind]}.{m}" for m in ("get_conditional_mu", "condition_on_x", "set_y", "affine_joint_transformation",
                          "affine_marginal_transformation", "affine_conditional_transformation", "integrate_log_conditional",
                          "integrate_log_conditional_y", "conditional_entropy", "mutual_information")])(_mk_identity(kind, Rc, Rx))
    for (Rc, Rx) in LAYOUTS:
        REG.ob(f"NNControlGaussianConditional-vs-general/R=({Rc},{Rx})", sorts=[s for s in (Rc, Rx) if s != 1] + ["Dx", "Dy", "N", "Du"],
               order={("Dx", "Dy"): True},
               funcs=[f"conditional.NNControlGaussianConditional.{m}" for m in ("set_control_variable", "get_M_b", "get_conditional_mu", "condition_on_x_u", "__call__",
                      "set_y", "affine_joint_transformation", "affine_marginal_transformation", "affine_conditional_transformation",
                      "conditional_entropy")])(_mk_nn(Rc, Rx))


_register()
