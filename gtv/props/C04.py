"""C04: cached covariance, log-determinants, mean and log-partition always match (DESIGN §6-C04).
Class invariant wf + induction: every constructor establishes wf, every public operation preserves it (for results,
receiver and arguments) from every cache state.  Operations on conditionals / transformations are included from the
modules that own them (clauses `*/wf/*`)."""
from ..runner import Registry
from .. import lemmas as LM
from .common import gen_factor, gen_measure, snapshot
from .wf import wf_measure

REG = Registry("C04")

U_KINDS = ["measure", "measure+cache", "diag-measure", "diag-measure+cache", "pdf"]
F_KINDS = ["general", "rank-one", "linear", "constant", "measure", "diag-measure", "pdf"]


def _hints(w, op, uv, fv, fkind, R1, R2):
    """lemma hints (ghost steps) for the log-determinant of the product's precision"""
    xp = w.xp
    if "S" not in uv:
        return
    ldLu = -uv["ld"]
    if fkind == "rank-one":
        LM.rank_one_update(w, uv["L"], uv["S"], ldLu, fv["g"], fv["v"], outer=(op == "multiply"))
    elif fkind in ("linear", "constant") and op == "multiply":
        r2 = 1 if R2 == 1 else w.size(R2)
        LM.tiled(w, uv["L"], ldLu, r2)


def _mk_product_op(ukind, fkind, op, R1, R2, update_full):
    def ob(w):
        u, uv = gen_factor(w, ukind, "u", R1, "D")
        f, fv = gen_factor(w, fkind, "f", R2, "D")
        _hints(w, op, uv, fv, fkind, R1, R2)
        if op == "multiply":
            res = u.multiply(f, update_full=update_full)        # REAL
        else:
            res = u.hadamard(f, update_full=update_full)        # REAL
        wf_measure(w, "result", res)
        wf_measure(w, "receiver-after", u, is_pdf=(ukind == "pdf"))
        if fkind in ("measure", "diag-measure", "pdf"):
            wf_measure(w, "argument-after", f, is_pdf=(fkind == "pdf"))
        if not update_full:
            # history: the lazily computed caches of the product (filled by its first query) are consistent as well -- whatever
            # class the product has, its own invert_lambda must invert ITS precision
            res.log_integral()                                   # REAL (fills Sigma, ln det, lnZ)
            wf_measure(w, "result-after-query", res)
    return ob


def _mk_queries(kind, R, order):
    """read-only queries populate caches: wf must hold after each, and values must not depend on the order"""
    def ob(w):
        xp = w.xp
        u, uv = gen_factor(w, kind, "u", R, "D")
        x = w.arr("x", "N", "D")
        first = None
        for n, q in enumerate(order):
            if q == "log_integral_light":
                u.log_integral_light()
            elif q == "log_integral":
                u.log_integral()
            elif q == "integrate_x":
                u.integrate("x")
            elif q == "evaluate":
                u.evaluate_ln(x)
            elif q == "get_density":
                d = u.get_density()
                wf_measure(w, f"step{n}:{q}/density", d, is_pdf=True)
            elif q == "compute_mu":
                u.compute_mu()
            elif q == "invert_lambda":
                u.invert_lambda()
            wf_measure(w, f"step{n}:{q}/receiver", u, is_pdf=(kind == "pdf"))
    return ob


def _mk_normalize(kind, R):
    def ob(w):
        u, uv = gen_factor(w, kind, "u", R, "D")
        u.normalize()                                            # REAL (mutates ln_beta, fills caches)
        wf_measure(w, "receiver-after", u)
        w.equal("normalized/ln_beta=-lnZ", u.ln_beta, -u.lnZ)
    return ob


def _mk_prod_all(kind, R):
    def ob(w):
        u, uv = gen_factor(w, kind, "u", R, "D")
        res = u.product()                                        # REAL
        wf_measure(w, "result", res)
        wf_measure(w, "receiver-after", u, is_pdf=(kind == "pdf"))
    return ob


def _mk_update_Sigma(kind, R):
    def ob(w):
        from .. import spec as SP
        from .wf import wf_conditional
        h = SP.gen_cond_handle(w, kind, "c", R, "Dy", "Dy" if kind.startswith("identity") else "Dx")
        g = w.spd("n", SP.batch(R), "Dy")
        h.obj.update_Sigma(g["S"])                                       # REAL (in place)
        wf_conditional(w, "receiver-after", h.obj)
        w.equal("Sigma-replaced", h.obj.Sigma, g["S"])
        w.equal("ln_det_Sigma", h.obj.ln_det_Sigma, g["ld"])
        if R != 1:
            bad = w.spd("m", SP.batch("R2"), "Dy")
            w.raises("shape-mismatch-refused", (ValueError,), lambda: h.obj.update_Sigma(bad["S"]))
    return ob


def _funcs(fkind, op):
    base = {"general": "factor.ConjugateFactor", "rank-one": "factor.OneRankFactor", "linear": "factor.LinearFactor",
            "constant": "factor.ConstantFactor"}.get(fkind, "factor.ConjugateFactor")
    return [f"measure.GaussianMeasure.{op}", f"{base}._{op}_with_measure", "measure.GaussianMeasure.__post_init__"]


def _register():
    RC_MUL = [("R1", "R2"), (1, "R2"), ("R1", 1), (1, 1)]
    RC_HAD = [("R1", "R1"), (1, "R2"), ("R1", 1), (1, 1)]
    for ukind in U_KINDS:
        for fkind in F_KINDS:
            for op in ("multiply", "hadamard"):
                for (R1, R2) in (RC_HAD if op == "hadamard" else RC_MUL):
                    for uf in (False, True):
                        quick = (uf and ukind in ("measure", "measure+cache", "pdf") and R1 != 1 and R2 != 1) or \
                            (not uf and ukind in ("measure", "diag-measure", "diag-measure+cache") and fkind in ("general", "rank-one", "linear")
                             and R1 != 1 and R2 != 1)
                        sorts = sorted({s for s in (R1, R2) if s != 1}) + ["D"]
                        REG.ob(f"{op}/{ukind}*{fkind}/R=({R1},{R2})/update_full={uf}", sorts=sorts, funcs=_funcs(fkind, op),
                               tier="quick" if quick else "thorough",
                               lemmas=["GtvLemmas.det_rank_one_update"] if fkind == "rank-one" else [])(
                            _mk_product_op(ukind, fkind, op, R1, R2, uf))
    for kind in ("full", "identity"):
        for R in ("R", 1):
            from .. import spec as SP
            REG.ob(f"update_Sigma/{SP.COND_CLS[kind]}/R={R}", sorts=(["R", "R2"] if R != 1 else []) + ["Dy"] + ([] if kind == "identity" else ["Dx"]),
                   funcs=[f"conditional.{SP.COND_CLS[kind]}.update_Sigma"])(_mk_update_Sigma(kind, R))
    orders = [("log_integral_light", "log_integral", "get_density"), ("get_density", "log_integral_light"),
              ("compute_mu", "log_integral_light", "evaluate"), ("integrate_x", "invert_lambda", "log_integral"),
              ("evaluate", "get_density", "integrate_x")]
    for kind in ("measure", "measure+cache", "diag-measure", "diag-measure+cache", "pdf"):
        for R in ("R1", 1):
            for n, order in enumerate(orders):
                REG.ob(f"queries/{kind}/R={R}/order{n}", sorts=(["R1"] if R != 1 else []) + ["D", "N"],
                       funcs=["measure.GaussianMeasure.compute_lnZ", "measure.GaussianMeasure.compute_mu",
                              "measure.GaussianMeasure.invert_lambda", "measure.GaussianDiagMeasure.invert_lambda",
                              "measure.GaussianMeasure.get_density", "measure.GaussianMeasure.log_integral",
                              "measure.GaussianMeasure.log_integral_light", "measure.GaussianMeasure._prepare_integration",
                              "pdf.GaussianPDF.__post_init__"],
                       tier="quick" if (R != 1 or n < 2) else "thorough")(_mk_queries(kind, R, order))
            if kind != "pdf":
                REG.ob(f"normalize/{kind}/R={R}", sorts=(["R1"] if R != 1 else []) + ["D"],
                       funcs=["measure.GaussianMeasure.normalize"])(_mk_normalize(kind, R))
            REG.ob(f"product/{kind}/R={R}", sorts=(["R1"] if R != 1 else []) + ["D"],
                   funcs=["measure.GaussianMeasure.product", "measure.GaussianDiagMeasure.product"])(_mk_prod_all(kind, R))


_register()


# results of the transformations are objects too: their invariant clauses belong to this property as well
from . import C05 as _C05, C06 as _C06, C07 as _C07, C08 as _C08, C09 as _C09, C12 as _C12  # noqa: E402
for _m in (_C05, _C06, _C07, _C08, _C09, _C12):
    REG.include(_m.REG, only_clauses=["*/wf/*", "*/batch/*"], exclude="*refusal*")
