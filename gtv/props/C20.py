"""C20: truncated one-dimensional Gaussian measures integrate correctly (DESIGN §6-C20).
Configurations: each limit finite / omitted / explicitly infinite; base an un-normalised measure or a density; R generic
or 1; k in 0..6 (the statement's own domain, lax.scan unrolled).  Spec by axiom G4 (integration by parts for z^k phi(z))."""
import math
from ..runner import Registry
from .. import spec as SP

REG = Registry("C20")
AX = ["G1 Gaussian integral", "G4 int_a^b phi = Phi(b)-Phi(a) and d/dz(-z^(k-1) phi) = z^k phi - (k-1) z^(k-2) phi",
      "norm.pdf / norm.cdf / norm.logcdf are phi, Phi, ln Phi", "a < b so that Phi(beta) - Phi(alpha) > 0"]
LIMS = ["finite", "omitted", "inf"]


def gen_1d(w, R, base):
    """1-D Gaussian measure with mean m, std sg > 0 and log-constant c (un-normalised) or the density N(m, sg^2)"""
    Mm, P = SP.mods()["measure"], SP.mods()["pdf"]
    B = SP.batch(R)
    sg = w.pos("sg", *B)
    m = w.arr("m", *B)
    xp = w.xp
    Lam = (1.0 / sg ** 2)[:, None, None]
    nu = (m / sg ** 2)[:, None]
    if base == "measure":
        c = w.arr("c", *B)
        u = Mm.GaussianMeasure(Lambda=Lam, nu=nu, ln_beta=c)
        lnmass = 0.5 * m ** 2 / sg ** 2 + 0.5 * w.log2pi() + xp.log(sg) + c
    else:
        u = P.GaussianPDF(Sigma=(sg ** 2)[:, None, None], mu=m[:, None])
        c = -(0.5 * m ** 2 / sg ** 2 + 0.5 * w.log2pi() + xp.log(sg))
        lnmass = 0.0 * m
    return u, dict(m=m, sg=sg, c=c, lnmass=lnmass, Lam=Lam, nu=nu)


def gen_limit(w, name, kind, R, sign):
    B = SP.batch(R)
    if kind == "finite":
        return w.arr(name, *B, 1), True
    if kind == "omitted":
        return None, False
    return sign * w.inf() * w.xp.ones((1 if R == 1 else w.size(R), 1)), False


def ln_u(w, par, x):
    """[R, N] log of the un-truncated function at points x [N, 1]"""
    xp = w.xp
    x0 = x[:, 0]
    return -0.5 * x0[None] ** 2 * (1.0 / par["sg"] ** 2)[:, None] + x0[None] * (par["m"] / par["sg"] ** 2)[:, None] + par["c"][:, None]


def J_list(w, par, a, fa, b, fb, kmax):
    """J_k = int_alpha^beta z^k phi(z) dz, k = 0..kmax (axiom G4); alpha/beta standardised limits, [R]"""
    al = ((a[:, 0] - par["m"]) / par["sg"]) if fa else None
    be = ((b[:, 0] - par["m"]) / par["sg"]) if fb else None
    zero = 0.0 * par["m"]
    Phi_b = w.Phi(be) if fb else 1.0 + zero
    Phi_a = w.Phi(al) if fa else zero
    phi_a = w.phi(al) if fa else zero
    phi_b = w.phi(be) if fb else zero
    J = [Phi_b - Phi_a, phi_a - phi_b]
    for k in range(2, kmax + 1):
        t = zero
        if fa:
            t = t + al ** (k - 1) * phi_a
        if fb:
            t = t - be ** (k - 1) * phi_b
        J.append(t + (k - 1) * J[k - 2])
    return J


def moment_spec(w, par, J, k):
    """int_a^b x^k u(x) dx / mass(u) = sum_i C(k,i) sg^i m^(k-i) J_i"""
    tot = None
    for i in range(k + 1):
        term = math.comb(k, i) * par["sg"] ** i * par["m"] ** (k - i) * J[i]
        tot = term if tot is None else tot + term
    return tot


def _mk_measure(R, base, lo, hi, kmax, scalar=None):
    def ob(w):
        xp = w.xp
        w.literal_arange = True
        T = SP.mods()["experimental.truncated_measure"]
        u, par = gen_1d(w, R, base)
        a, fa = gen_limit(w, "a", lo, R, -1.0)
        b, fb = gen_limit(w, "b", hi, R, 1.0)
        from .common import snapshot, unchanged
        su = snapshot(u)
        if scalar is not None:
            # limits given as Python scalars (the library's own usage: lower_limit=0.): broadcast to every component
            lo_s, hi_s = scalar
            ones = xp.ones((1 if R == 1 else w.size(R), 1))
            a, fa = (lo_s * ones, True) if lo_s is not None else (None, False)
            b, fb = (hi_s * ones, True) if hi_s is not None else (None, False)
            tm = T.TruncatedGaussianMeasure(measure=u, lower_limit=lo_s, upper_limit=hi_s)      # REAL
        else:
            tm = T.TruncatedGaussianMeasure(measure=u, lower_limit=a, upper_limit=b)      # REAL
        x = w.arr("x", "N", 1)
        ind = 1.0 + 0.0 * ln_u(w, par, x)
        if fa:
            ind = ind * w.step(x[:, 0][None] - a)
        if fb:
            ind = ind * w.step(b - x[:, 0][None])
        w.equal("call=u(x)*1[a<=x<=b]", tm(x), xp.exp(ln_u(w, par, x)) * ind)
        if R != 1:
            xe = w.arr("xe", R, 1)
            inde = 1.0 + 0.0 * par["m"]
            if fa:
                inde = inde * w.step(xe[:, 0] - a[:, 0])
            if fb:
                inde = inde * w.step(b[:, 0] - xe[:, 0])
            lne = -0.5 * xe[:, 0] ** 2 / par["sg"] ** 2 + xe[:, 0] * par["m"] / par["sg"] ** 2 + par["c"]
            w.equal("call/element_wise", tm(xe, element_wise=True), xp.exp(lne) * inde)
            w.raises("call/element_wise/N!=R-refused", (ValueError,), lambda: tm(x, element_wise=True))
        J = J_list(w, par, a, fa, b, fb, max(kmax, 2))
        mass = xp.exp(par["lnmass"])
        w.equal("integrate[1]", tm.integrate("1"), mass * J[0])
        w.equal("integrate[x]", tm.integrate("x"), (mass * moment_spec(w, par, J, 1))[:, None])
        w.equal("integrate[x**2]", tm.integrate("x**2"), (mass * moment_spec(w, par, J, 2))[:, None])
        for k in range(0, kmax + 1):
            w.equal(f"integrate[x**k]/k={k}", tm.integrate("x**k", k=k), (mass * moment_spec(w, par, J, k))[:, None])
        if base == "measure":
            # lazily filled caches of the base measure are legitimate; its defining parameters must be untouched
            for fld in ("Lambda", "nu", "ln_beta"):
                w.check(f"frame/base-measure-{fld}-unchanged", getattr(u, fld) is su[fld], f"{fld} of the base measure was rebound")
    return ob


def _mk_additive(R, base, kmax):
    def ob(w):
        xp = w.xp
        w.literal_arange = True
        T = SP.mods()["experimental.truncated_measure"]
        u, par = gen_1d(w, R, base)
        B = SP.batch(R)
        a, c, b = w.arr("a", *B, 1), w.arr("cc", *B, 1), w.arr("b", *B, 1)
        t_ac = T.TruncatedGaussianMeasure(measure=u, lower_limit=a, upper_limit=c)
        t_cb = T.TruncatedGaussianMeasure(measure=u, lower_limit=c, upper_limit=b)
        t_ab = T.TruncatedGaussianMeasure(measure=u, lower_limit=a, upper_limit=b)
        t_lo = T.TruncatedGaussianMeasure(measure=u, upper_limit=c)
        t_hi = T.TruncatedGaussianMeasure(measure=u, lower_limit=c)
        for key, kw in [("1", {}), ("x", {}), ("x**2", {})] + [("x**k", dict(k=k)) for k in range(0, kmax + 1)]:
            nm = key + (f"/k={kw['k']}" if kw else "")
            w.equal(f"additive[{nm}]/[a,c]+[c,b]=[a,b]", t_ac.integrate(key, **kw) + t_cb.integrate(key, **kw), t_ab.integrate(key, **kw))
        # the two half lines add up to the untruncated integrals
        w.equal("half-lines/1", t_lo.integrate("1") + t_hi.integrate("1"), u.integrate("1"))
        w.equal("half-lines/x", t_lo.integrate("x") + t_hi.integrate("x"), u.integrate("x"))
        w.equal("half-lines/x**2", t_lo.integrate("x**2") + t_hi.integrate("x**2"), u.integrate("xx'")[:, :, 0])
    return ob


def _mk_pdf(R, base, lo, hi, how):
    def ob(w):
        xp = w.xp
        w.literal_arange = True
        T = SP.mods()["experimental.truncated_measure"]
        u, par = gen_1d(w, R, base)
        a, fa = gen_limit(w, "a", lo, R, -1.0)
        b, fb = gen_limit(w, "b", hi, R, 1.0)
        from .common import snapshot, unchanged
        su = snapshot(u)
        if how == "get_density":
            tp = T.TruncatedGaussianMeasure(measure=u, lower_limit=a, upper_limit=b).get_density()   # REAL
        else:
            tp = T.TruncatedGaussianPDF(measure=u, lower_limit=a, upper_limit=b)                     # REAL, built directly
        # (lazily filled caches of the base measure are legitimate; its defining parameters must be untouched)
        for fld in ("Lambda", "nu", "ln_beta"):
            w.check(f"frame/base-measure-{fld}-unchanged", getattr(u, fld) is su[fld], f"{fld} of the base measure was rebound")
        J = J_list(w, par, a, fa, b, fb, 2)
        mass = xp.exp(par["lnmass"])
        x = w.arr("x", "N", 1)
        ind = 1.0 + 0.0 * ln_u(w, par, x)
        if fa:
            ind = ind * w.step(x[:, 0][None] - a)
        if fb:
            ind = ind * w.step(b - x[:, 0][None])
        w.equal("call=u(x)/∫_a^b u inside", tp(x), xp.exp(ln_u(w, par, x)) * ind / (mass * J[0])[:, None])
        if R != 1:
            xe = w.arr("xe", R, 1)
            inde = 1.0 + 0.0 * par["m"]
            if fa:
                inde = inde * w.step(xe[:, 0] - a[:, 0])
            if fb:
                inde = inde * w.step(b[:, 0] - xe[:, 0])
            lne = -0.5 * xe[:, 0] ** 2 / par["sg"] ** 2 + xe[:, 0] * par["m"] / par["sg"] ** 2 + par["c"]
            w.equal("call/element_wise", tp(xe, element_wise=True), xp.exp(lne) * inde / (mass * J[0]))
        w.equal("integrates-to-one", tp.integrate("1"), 1.0 + 0.0 * par["m"])
        mean = moment_spec(w, par, J, 1) / J[0]
        w.equal("mean", tp.get_mean(), mean[:, None])
        w.equal("variance", tp.get_variance(), (moment_spec(w, par, J, 2) / J[0] - mean ** 2)[:, None])
        w.equal("integrate[x]", tp.integrate("x"), mean[:, None])
        w.equal("std^2=variance", tp.get_std() ** 2, tp.get_variance())
    return ob


def _mk_no_limits(base):
    def ob(w):
        T = SP.mods()["experimental.truncated_measure"]
        u, par = gen_1d(w, "R", base)
        w.raises("no-limit-refused", (ValueError,), lambda: T.TruncatedGaussianMeasure(measure=u))
    return ob


def _mk_binom():
    """bounded stand-in: the real experimental.misc.binom equals the exact binomial coefficient for 0 <= i <= k <= 12"""
    def ob(w):
        if w.symbolic:
            w.check("binom-contract-used", True, "call sites use the exact-binomial contract; body checked in the numeric world (bounded)")
            return
        import numpy as np
        B = SP.mods()["experimental.misc"].binom
        ok, bad = True, []
        for k in range(0, 13):
            for i in range(0, k + 1):
                if int(B(k, i)) != math.comb(k, i):
                    ok = False
                    bad.append((k, i, int(B(k, i))))
        w.check("binom-contract-used", ok, f"mismatches {bad[:5]}")
    return ob


def _mk_cdf_body(case):
    """body of experimental.misc.normal_cdf against its contract Phi: where(y < 1, y, 1 + logcdf(x)) with y = cdf(x)"""
    def ob(w):
        M = SP.mods()["experimental.misc"]
        if w.symbolic:
            if case == "Phi(x)<1":
                w.compare_outcome = True
                x = w.arr("x", "N")
            else:
                # Phi(x) < 1 for every finite x, so the other branch is reached only at x = +inf
                w.compare_outcome = False
                x = w.inf() * w.xp.ones((w.size("N"),))
            w.equal("normal_cdf=Phi", M.normal_cdf(x), w.Phi(x))
            w.equal("normal_pdf=phi", M.normal_pdf(x), w.phi(x))
        else:
            x = w.arr("x", "N") * 3.0
            if case != "Phi(x)<1":
                x = x * 0.0 + w.xp.inf
            w.equal("normal_cdf=Phi", M.normal_cdf(x), w.Phi(x))
            w.equal("normal_pdf=phi", M.normal_pdf(x), w.phi(x))
    return ob


def _register():
    for case in ("Phi(x)<1", "Phi(x)=1"):
        REG.ob(f"misc.normal_cdf-body/{case}", sorts=["N"], funcs=["experimental.misc.normal_cdf", "experimental.misc.normal_pdf"],
               axioms=["norm.pdf / norm.cdf / norm.logcdf are phi, Phi, ln Phi"])(_mk_cdf_body(case))
    F = ["experimental.truncated_measure.TruncatedGaussianMeasure." + m for m in
         ("__post_init__", "_check_limits", "__call__", "integrate", "_expectation_integral", "integral", "_expectation_x", "integrate_x",
          "_get_variance", "integrate_x_pow_2", "_get_moment", "integrate_x_pow_k", "get_density")]
    FP = ["experimental.truncated_measure.TruncatedGaussianPDF." + m for m in ("__post_init__", "__call__", "get_mean", "get_variance", "get_std")]
    for R in ("R", 1):
        for base in ("measure", "density"):
            for lo in LIMS:
                for hi in LIMS:
                    if lo == "omitted" and hi == "omitted":
                        continue
                    quick = (R == "R" and base == "measure" and (lo, hi) in (("finite", "finite"), ("finite", "omitted"), ("inf", "finite"), ("inf", "inf")))
                    REG.ob(f"TruncatedGaussianMeasure/R={R}/{base}/lower={lo}/upper={hi}", sorts=(["R"] if R != 1 else []) + ["N"], funcs=F, axioms=AX,
                           tier="quick" if quick else "thorough", bounded="x**k for k in 0..6 (the statement's own domain); lax.scan unrolled")(
                        _mk_measure(R, base, lo, hi, 6 if quick or True else 4))
                    for how in ("get_density", "direct"):
                        REG.ob(f"TruncatedGaussianPDF[{how}]/R={R}/{base}/lower={lo}/upper={hi}", sorts=(["R"] if R != 1 else []) + ["N"],
                               funcs=F + FP, axioms=AX, tier="quick" if quick else "thorough")(_mk_pdf(R, base, lo, hi, how))
            for nm, sc in (("lower=0.", (0.0, None)), ("lower=-0.5,upper=2.", (-0.5, 2.0)), ("upper=1.", (None, 1.0))):
                REG.ob(f"TruncatedGaussianMeasure/R={R}/{base}/scalar-limits/{nm}", sorts=(["R"] if R != 1 else []) + ["N"], funcs=F, axioms=AX,
                       tier="quick" if (R == "R" and base == "measure") else "thorough")(_mk_measure(R, base, "finite", "finite", 3, sc))
            REG.ob(f"additivity/R={R}/{base}", sorts=(["R"] if R != 1 else []), funcs=F, axioms=AX,
                   tier="quick" if R == "R" else "thorough")(_mk_additive(R, base, 4))
    for base in ("measure", "density"):
        REG.ob(f"TruncatedGaussianMeasure/{base}/no-limits/refusal", sorts=["R"],
               funcs=["experimental.truncated_measure.TruncatedGaussianMeasure._check_limits"])(_mk_no_limits(base))
    REG.ob("binom/bounded-0<=i<=k<=12", sorts=[], funcs=["experimental.misc.binom"], bounded="exhaustive 0 <= i <= k <= 12 on the real function")(_mk_binom())


_register()
