"""C03: polynomial integrals equal the exact Gaussian moments (DESIGN §6-C03)."""
import itertools
import random
from ..runner import Registry
from .. import spec as SP
from .common import gen_measure, same_state_keys

REG = Registry("C03")

# key -> (method, expectation helper, list of form names, their K sorts, letters, out letters)
TABLE = {
    "x":                          ("integrate_x", "_expectation_x", [], [], "i", "i"),
    "(Ax+a)":                     ("integrate_general_linear", "_expectation_general_linear", ["A"], ["K"], "k", "k"),
    "xx'":                        ("integrate_xxT", "_expectation_xxT", [], [], "ij", "ij"),
    "(Ax+a)'(Bx+b)":              ("integrate_general_quadratic_inner", "_expectation_general_quadratic_inner", ["A", "B"], ["K", "K"], "kk", ""),
    "(Ax+a)(Bx+b)'":              ("integrate_general_quadratic_outer", "_expectation_general_quadratic_outer", ["A", "B"], ["K", "L"], "kl", "kl"),
    "(Ax+a)(Bx+b)'(Cx+c)":        ("integrate_general_cubic_inner", "_expectation_general_cubic_inner", ["A", "B", "C"], ["K", "L", "L"], "kll", "k"),
    "(Ax+a)'(Bx+b)(Cx+c)'":       ("integrate_general_cubic_outer", "_expectation_general_cubic_outer", ["A", "B", "C"], ["K", "K", "L"], "kkl", "l"),
    "(Ax+a)'(Bx+b)(Cx+c)'(Dx+d)": ("integrate_general_quartic_inner", "_expectation_general_quartic_inner", ["A", "B", "C", "D"], ["K", "K", "L", "L"], "kkll", ""),
    "(Ax+a)(Bx+b)'(Cx+c)(Dx+d)'": ("integrate_general_quartic_outer", "_expectation_general_quartic_outer", ["A", "B", "C", "D"], ["K", "L", "L", "M"], "kllm", "km"),
}
MODES = ["omit", "shared", "per"]   # coefficient given: not at all / shared by all components / per component


def _mk_general(key, R, cache, mat_modes, vec_modes):
    method, helper, names, ksorts, letters, out = TABLE[key]

    def ob(w):
        xp = w.xp
        u, uv = gen_measure(w, "u", R, "D", cache=cache)
        mu = xp.einsum("rij,rj->ri", uv["S"], uv["nu"])
        lnmass = SP.lnmass(w, uv["S"], uv["nu"], uv["lb"], -uv["ld"], w.size("D"))
        kwargs, forms = {}, []
        # which forms are tied to the same K must agree on 'omit' (identity => K = D)
        for nm, ks, mm, vm in zip(names, ksorts, mat_modes, vec_modes):
            K = "D" if mm == "omit" and False else ks
            A = a = None
            A3 = a2 = None
            Kdim = ks
            if ks in _omitted_sorts(names, ksorts, mat_modes):
                Kdim = "D"
            if mm == "shared":
                A = w.arr(f"{nm}m", Kdim, "D")
                A3 = A[None]
            elif mm == "per":
                A = w.arr(f"{nm}m", *( [R] if R != 1 else [1]), Kdim, "D")
                A3 = A
            if vm == "shared":
                a = w.arr(f"{nm.lower()}v", Kdim)
                a2 = a[None]
            elif vm == "per":
                a = w.arr(f"{nm.lower()}v", *([R] if R != 1 else [1]), Kdim)
                a2 = a
            if A is not None:
                kwargs[f"{nm}_mat"] = A
            if a is not None:
                kwargs[f"{nm.lower()}_vec"] = a
            forms.append((A3, a2))
        if not names:
            if key == "x":
                forms, lts = [(None, None)], "i"
            else:
                forms, lts = [(None, None), (None, None)], "ij"
        else:
            lts = letters
        keys0 = set(u.__dict__)
        val = u.integrate(key, **kwargs)                            # REAL
        same_state_keys(w, "frame/no-undeclared-cache", u, keys0)
        E = SP.wick(w, mu, uv["S"], forms, lts, out, "D")
        mass = xp.exp(lnmass)
        spec = mass.reshape(mass.shape + (1,) * len(out)) * E if not w.symbolic else _scale(w, mass, E, len(out))
        w.equal("value", val, spec)
    return ob


def _scale(w, mass, E, nout):
    key = (slice(None),) + (None,) * nout
    return mass[key] * E


def _omitted_sorts(names, ksorts, mat_modes):
    """a K-sort is identified with D when any form using it omits its matrix (identity default)"""
    return {ks for ks, mm in zip(ksorts, mat_modes) if mm == "omit"}


def _mk_special(key, R, cache, shared):
    def ob(w):
        xp = w.xp
        u, uv = gen_measure(w, "u", R, "D", cache=cache)
        mu = xp.einsum("rij,rj->ri", uv["S"], uv["nu"])
        mass = xp.exp(SP.lnmass(w, uv["S"], uv["nu"], uv["lb"], -uv["ld"], w.size("D")))
        B = [R] if R != 1 else [1]
        if key == "xb'xx'":
            b = w.arr("bv", "D") if shared else w.arr("bv", *B, "D")
            keys0 = set(u.__dict__)
            val = u.integrate(key, b_vec=b)                          # REAL
            same_state_keys(w, "frame/no-undeclared-cache", u, keys0)
            b3 = b[None, None] if shared else b[:, None]
            forms = [(None, None), (b3, None), (None, None)]
        else:
            if shared == "omit":
                # defaults of integrate_cubic_outer: A = ones, a = 0, i.e. the integrand x (1'x) x'
                val = u.integrate(key)                               # REAL
                A3 = xp.ones((1, 1, w.size("D")))
                E = SP.wick(w, mu, uv["S"], [(None, None), (A3, None), (None, None)], "iuj", "ij", "D")
                w.equal("value", val, mass[:, None, None] * E)
                return
            if shared:
                A, a = w.arr("Am", 1, "D"), w.arr("av", 1)
                A3, a2 = A[None], a[None]
            else:
                A, a = w.arr("Am", *B, 1, "D"), w.arr("av", *B, 1)
                A3, a2 = A, a
            keys0 = set(u.__dict__)
            val = u.integrate(key, A_mat=A, a_vec=a)                 # REAL
            same_state_keys(w, "frame/no-undeclared-cache", u, keys0)
            forms = [(None, None), (A3, a2), (None, None)]
        E = SP.wick(w, mu, uv["S"], forms, "iuj", "ij", "D")
        w.equal("value", val, mass[:, None, None] * E)
    return ob


def _mk_mass(R, cache, diag):
    def ob(w):
        xp = w.xp
        u, uv = gen_measure(w, "u", R, "D", cache=cache, diag=diag)
        lnmass = SP.lnmass(w, uv["S"], uv["nu"], uv["lb"], -uv["ld"], w.size("D"))
        w.equal("integrate('1')", u.integrate("1"), xp.exp(lnmass))
        w.equal("integrate()", u.integrate(), xp.exp(lnmass))
    return ob


def _register():
    rnd = random.Random(20240101)
    for key, (method, helper, names, ksorts, letters, out) in TABLE.items():
        funcs = [f"measure.GaussianMeasure.{method}", f"measure.GaussianMeasure.{helper}", "measure.GaussianMeasure.integrate",
                 "measure.GaussianMeasure._get_default", "measure.GaussianMeasure.integral", "measure.GaussianMeasure.log_integral",
                 "measure.GaussianMeasure._prepare_integration", "measure.GaussianMeasure.compute_lnZ", "measure.GaussianMeasure.compute_mu",
                 "factor.ConjugateFactor.get_trace"]
        n = len(names)
        combos = list(itertools.product(MODES, repeat=2 * n)) if n else [()]
        # quick: uniform combos + a seeded sample; thorough: all (<= 3^8 = 6561 for quartics -> sampled 400)
        uniform = [c for c in combos if len(set(c)) <= 1]
        sample_q = rnd.sample(combos, min(6, len(combos)))
        sample_t = combos if len(combos) <= 81 else rnd.sample(combos, 100)
        seen = set()
        for tier, cs in (("quick", uniform + sample_q), ("thorough", sample_t)):
            for c in cs:
                mat_modes, vec_modes = c[:n], c[n:]
                for R in ("R", 1):
                    for cache in (False, True):
                        if tier == "quick" and (cache != (R == "R")):
                            continue
                        ident = (c, R, cache)
                        if ident in seen:
                            continue
                        seen.add(ident)
                        sorts = sorted(set(ksorts) | {"D"} | ({"R"} if R != 1 else set()))
                        cfg = ",".join(f"{nm}:{mm[0]}{vm[0]}" for nm, mm, vm in zip(names, mat_modes, vec_modes)) or "-"
                        REG.ob(f"integrate[{key}]/R={R}/cache={int(cache)}/{cfg}", sorts=sorts, funcs=funcs, tier=tier,
                               axioms=["G1 Gaussian integral", "G2 Isserlis/Wick"])(
                            _mk_general(key, R, cache, mat_modes, vec_modes))
    for key, method, helper in (("xb'xx'", "integrate_xbxx", "_expectation_xbxx"),
                                ("x(A'x + a)x'", "integrate_cubic_outer", "_expectation_cubic_outer")):
        for R in ("R", 1):
            for cache in (False, True):
                for shared in (False, True) + (("omit",) if key != "xb'xx'" else ()):
                    REG.ob(f"integrate[{key}]/R={R}/cache={int(cache)}/{'omit' if shared == 'omit' else ('shared' if shared else 'per')}",
                           sorts=["D"] + (["R"] if R != 1 else []),
                           funcs=[f"measure.GaussianMeasure.{method}", f"measure.GaussianMeasure.{helper}",
                                  "measure.GaussianMeasure._expectation_xbxx", "measure.GaussianMeasure._expectation_xxT"],
                           axioms=["G1 Gaussian integral", "G2 Isserlis/Wick"])(_mk_special(key, R, cache, shared))
    for R in ("R", 1):
        for cache in (False, True):
            for diag in (False, True):
                REG.ob(f"integrate[1]/R={R}/cache={int(cache)}/diag={int(diag)}", sorts=["D"] + (["R"] if R != 1 else []),
                       funcs=["measure.GaussianMeasure.integral", "measure.GaussianMeasure.log_integral"],
                       axioms=["G1 Gaussian integral"])(_mk_mass(R, cache, diag))


_register()
