"""C19: samples follow the density's law and are reproducible (DESIGN §6-C19).
Structural part: sample(key, n) is the affine image mu + L z of the key's standard-normal stream with L = cholesky(Sigma)
(assumed contracts: L L' = Sigma; z i.i.d. N(0,1), a function of key and shape only).  The distributional conclusion is
axiom G3; statistical moment tests are not part of this technique."""
from ..runner import Registry
from .. import spec as SP

REG = Registry("C19")
AX = ["G3 affine image of a standard normal vector is N(mu, L L')", "jnp.linalg.cholesky: L L' = Sigma",
      "jax.random.normal: i.i.d. standard normal, deterministic function of (key, shape)"]


def _mk(R, diag):
    def ob(w):
        xp = w.xp
        p, par = SP.gen_pdf(w, "p", R, "D", diag=diag)
        key = w.random_key("k")
        n = w.size("Ns")
        keys0 = set(p.__dict__)
        x = p.sample(key, n)                                               # REAL
        extra = sorted(set(p.__dict__) - keys0)
        w.check("frame/no-undeclared-cache", not extra, f"sample() left new state on the density: {extra}")
        r = 1 if R == 1 else w.size(R)
        z = w.random_normal(key, (n, r, w.size("D")))
        L = w.cholesky(par["S"])
        w.equal("x=mu+L z (pairing of L[a] with z[:,a,:], shape [n,R,D])", x, par["mu"][None] + xp.einsum("abc,dac->dab", L, z))
        x2 = p.sample(key, n)
        w.equal("deterministic-in-key", x2, x)
        if R != 1:
            # history: after an in-place update() the draws follow the NEW components (no factor of the old covariance survives)
            d, dd = SP.gen_pdf(w, "d", "Rn", "D", diag=diag)
            idx = w.index_map("idx", "Rn", R)
            p.update(idx, d)                                               # REAL (in place)
            x3 = p.sample(key, n)                                          # REAL
            w.equal("after-update/x=mu+L z with the updated parameters", x3,
                    p.mu[None] + xp.einsum("abc,dac->dab", w.cholesky(p.Sigma), z))
        if w.symbolic:
            comps, occ = w.atom_indices(x, "z[k]")
            # x[d, a, i] may depend on the stream only through z[d, a, .]: independence across draws and components
            ok = bool(occ)
            for idx in occ:
                lead = list(idx[:len(comps) - 1])
                ok = ok and all(any(t is c for c in comps[:len(lead)]) for t in lead) and len(set(map(id, lead))) == len(lead)
                ok = ok and all(idx[k] is comps[k] for k in range(len(lead)))
            w.check("depends-only-on-own-draw-and-component", ok, f"occurrences of the normal stream: {occ!r}")
            other = [a for a in __import__("gtv.kernel", fromlist=["x"]).atoms_of(x.expr) if a.startswith("z[") and a != "z[k]"]
            w.check("no-other-randomness", not other, f"other random atoms: {other}")
        else:
            w.check("depends-only-on-own-draw-and-component", True, "structural clause (symbolic world only)")
            w.check("no-other-randomness", True, "structural clause (symbolic world only)")
    return ob


for _R in ("R", 1):
    for _diag in (False, True):
        REG.ob(f"{'GaussianDiagPDF' if _diag else 'GaussianPDF'}.sample/R={_R}", sorts=(["R", "Rn"] if _R != 1 else []) + ["D", "Ns"],
               funcs=["pdf.GaussianPDF.sample"], axioms=AX)(_mk(_R, _diag))
