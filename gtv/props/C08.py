"""C08: marginal transformation returns p(y) = ∫ p(y|x) p(x) dx (DESIGN §6-C08)."""
from ..runner import Registry
from .. import spec as SP
from .. import lemmas as LM
from .wf import wf_measure

REG = Registry("C08")
LAYOUTS = [(1, 1), (1, "Rx"), ("Rc", 1)]


def post_precision(w, h, px):
    """[A,B,Dx,Dx]  Lx + M' L M"""
    xp = w.xp
    par = h.par
    if h.identity:
        return px["L"][None] + par["L"][:, None]
    return px["L"][None] + xp.einsum("aji,ajk,akl->ail", par["M"], par["L"], par["M"])[:, None]


def spec_marginal(w, h, px, Rc, Rx, Dy):
    xp = w.xp
    par = h.par
    if h.identity:
        mu = px["mu"][None] + 0.0 * par["ld"][:, None, None]
        Sy = par["S"][:, None] + px["S"][None]
    else:
        mu = xp.einsum("aij,bj->abi", par["M"], px["mu"]) + par["b"][:, None]
        Sy = par["S"][:, None] + xp.einsum("aij,bjk,alk->abil", par["M"], px["S"], par["M"])
    rc = 1 if Rc == 1 else w.size(Rc)
    rx = 1 if Rx == 1 else w.size(Rx)
    dy = w.size(Dy)
    return xp.reshape(mu, (rc * rx, dy)), xp.reshape(Sy, (rc * rx, dy, dy))


def _mk(kind, Rc, Rx, ctor_px, px_diag=False):
    def ob(w):
        xp = w.xp
        Dy = "Dy"
        Dx = "Dy" if kind.startswith("identity") else "Dx"
        h = SP.gen_cond_handle(w, kind, "c", Rc, Dy, Dx)
        p_x, px = SP.gen_pdf(w, "x", Rx, Dx, ctor=ctor_px, diag=px_diag)     # px_diag: the prior is a GaussianDiagPDF
        diag = kind in ("diag", "identity-diag")
        if diag:
            # the diagonal kinds override only the constructor (and pointwise helpers): the method under contract is the
            # inherited general one, whose obligations hold for every well-formed (in particular diagonal) Sigma
            base = SP.mods()["conditional"].ConditionalGaussianPDF if kind == "diag" else SP.mods()["conditional"].ConditionalIdentityGaussianPDF
            w.check("inherits-general-method", type(h.obj).affine_marginal_transformation is base.affine_marginal_transformation,
                    "diagonal kind must inherit affine_marginal_transformation")
        # lemma hints (ghost): Sylvester determinant + Woodbury inverse of the marginal covariance
        P = post_precision(w, h, px)
        Sy4, _ = LM.sylvester(w, h.par["S"], h.par["ld"], px["S"], px["ld"], h.par["M"], P)
        from .common import fresh_result, params_unchanged, snapshot as _snap
        spx_, sc_ = _snap(p_x), _snap(h.obj)
        p_y = h.call("affine_marginal_transformation", p_x)            # REAL
        fresh_result(w, "frame/result-is-a-new-object", p_y, p_x, h.obj)
        params_unchanged(w, "frame/prior-unchanged", p_x, spx_, ("Sigma", "mu", "Lambda", "nu", "ln_beta", "ln_det_Sigma", "lnZ"))
        params_unchanged(w, "frame/conditional-unchanged", h.obj, sc_, ("M", "b", "Sigma", "Lambda", "ln_det_Sigma"))
        mu_s, Sy_s = spec_marginal(w, h, px, Rc, Rx, Dy)
        w.equal("value/mu", p_y.mu, mu_s)
        w.equal("value/Sigma", p_y.Sigma, Sy_s)
        wf_measure(w, "result", p_y, is_pdf=True)
        if diag:
            return
        # p(y) == ∫ p(y|x) p(x) dx : by G1 the integral is the mass of prior x likelihood (natural parameters add)
        Pinv = w.inv(P)                                                  # [A,B,Dx,Dx]
        L = h.par["L"]
        if h.identity:
            W4 = L[:, None] - xp.einsum("aij,abjk,akl->abil", L, Pinv, L)
        else:
            LM_ = xp.einsum("aij,ajk->aik", L, h.par["M"])
            W4 = L[:, None] - xp.einsum("aij,abjk,alk->abil", LM_, Pinv, LM_)
        w.have_inverse(Sy4, W4, "Woodbury (Matrix.add_mul_mul_inv_eq_sub)")
        y = w.arr("y", "Ny", Dy)
        yb = y[None] - (h.par["b"][:, None] if not h.identity else 0.0 * h.par["ld"][:, None, None])   # [A,Ny,Dy]
        if h.identity:
            nu_lik = xp.einsum("aij,anj->ani", L, yb)
        else:
            nu_lik = xp.einsum("aji,ajk,ank->ani", h.par["M"], L, yb)
        nux = xp.einsum("bij,bj->bi", px["L"], px["mu"])
        nu = nux[None, :, None] + nu_lik[:, None]                        # [A,B,Ny,Dx]
        ln_prior = -0.5 * xp.einsum("bi,bi->b", px["mu"], nux) - 0.5 * w.size(Dx) * w.log2pi() - 0.5 * px["ld"]
        ln_lik = -0.5 * xp.einsum("ani,aij,anj->an", yb, L, yb) - 0.5 * w.size(Dy) * w.log2pi() - 0.5 * h.par["ld"][:, None]
        lnmass = (0.5 * xp.einsum("abni,abij,abnj->abn", nu, Pinv, nu) + 0.5 * w.size(Dx) * w.log2pi()
                  - 0.5 * w.logdet(P)[:, :, None] + ln_prior[None, :, None] + ln_lik[:, None])
        rc = 1 if Rc == 1 else w.size(Rc)
        rx = 1 if Rx == 1 else w.size(Rx)
        w.equal("integral/p(y)=∫p(y|x)p(x)dx", p_y.evaluate_ln(y), xp.reshape(lnmass, (rc * rx, w.size("Ny"))))
    return ob


def _mk_refusal(kind):
    def ob(w):
        Dx = "Dy" if kind.startswith("identity") else "Dx"
        h = SP.gen_cond_handle(w, kind, "c", "Rc", "Dy", Dx)
        p_x, px = SP.gen_pdf(w, "x", "Rx", Dx)
        w.raises("documented-refusal", (RuntimeError,), lambda: h.call("affine_marginal_transformation", p_x))
    return ob


def _register():
    for kind in SP.COND_KINDS:
        cls = SP.COND_CLS[kind]
        for (Rc, Rx) in LAYOUTS:
            for ctor_px in ("Sigma+Lambda+ld", "Sigma"):
                if ctor_px == "Sigma" and not (Rc == 1 and Rx != 1):
                    continue
                sorts = [s for s in (Rc, Rx) if s != 1] + ["Dy", "Ny"] + ([] if kind.startswith("identity") else ["Dx"]) + (["Du"] if kind == "nn" else [])
                REG.ob(f"{cls}.affine_marginal_transformation/R=({Rc},{Rx})/px-ctor={ctor_px}", sorts=sorts,
                       funcs=[f"conditional.{cls}.affine_marginal_transformation", f"conditional.{cls}.get_conditional_mu",
                              f"conditional.{cls}.__post_init__", "pdf.GaussianPDF.__post_init__"] +
                             (["conditional.NNControlGaussianConditional.set_control_variable", "conditional.NNControlGaussianConditional.get_M_b"] if kind == "nn" else []),
                       axioms=["G1 Gaussian integral"],
                       lemmas=["GtvLemmas.det_add_mul_mul_transpose", "Matrix.add_mul_mul_inv_eq_sub (Woodbury)"])(_mk(kind, Rc, Rx, ctor_px))
        REG.ob(f"{cls}.affine_marginal_transformation/R=(Rc,Rx)/refusal", sorts=["Rc", "Rx", "Dy"] + ([] if kind.startswith("identity") else ["Dx"]) + (["Du"] if kind == "nn" else []),
               funcs=[f"conditional.{cls}.affine_marginal_transformation"])(_mk_refusal(kind))


def _register_more():
    # the prior may be any density class: a GaussianDiagPDF prior (a seeded type-dependent fast path was missed without it)
    for kind in ("full", "identity", "identity-diag"):
        cls = SP.COND_CLS[kind]
        for (Rc, Rx) in LAYOUTS:
            sorts = [s for s in (Rc, Rx) if s != 1] + ["Dy", "Ny"] + ([] if kind.startswith("identity") else ["Dx"])
            REG.ob(f"{cls}.affine_marginal_transformation/R=({Rc},{Rx})/prior=GaussianDiagPDF", sorts=sorts,
                   funcs=[f"conditional.{cls}.affine_marginal_transformation", "pdf.GaussianDiagPDF.__post_init__"],
                   axioms=["G1 Gaussian integral"], lemmas=["GtvLemmas.det_add_mul_mul_transpose", "GtvLemmas.det_diagonal"])(
                _mk(kind, Rc, Rx, "Sigma+Lambda+ld", True))
    # size-one dimension sorts (a generic sort stands for sizes >= 2)
    for unit in ("Dy", "Dx"):
        for (Rc, Rx) in LAYOUTS:
            sorts = [s for s in (Rc, Rx) if s != 1] + ["Dy", "Ny", "Dx"]
            REG.ob(f"ConditionalGaussianPDF.affine_marginal_transformation/R=({Rc},{Rx})/{unit}=1", sorts=sorts, unit_sorts=[unit],
                   funcs=["conditional.ConditionalGaussianPDF.affine_marginal_transformation"], axioms=["G1 Gaussian integral"],
                   skip_clauses=(["hint/*", "integral/*"] if unit == "Dy" else []),
                   lemmas=["GtvLemmas.det_add_mul_mul_transpose"])(_mk("full", Rc, Rx, "Sigma+Lambda+ld"))


_register()
_register_more()

from . import condctor as _cc  # noqa: E402
REG.include(_cc.REG, prefix="ctor")
