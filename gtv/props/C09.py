"""C09: conditional transformation is Bayes' rule and is invertible (DESIGN §6-C09)."""
from ..runner import Registry
from .. import spec as SP
from .. import lemmas as LM
from .wf import wf_conditional, wf_measure
from .C08 import post_precision, LAYOUTS

REG = Registry("C09")


def _merge(w, a, Rc, Rx, tail):
    rc = 1 if Rc == 1 else w.size(Rc)
    rx = 1 if Rx == 1 else w.size(Rx)
    return w.xp.reshape(a, (rc * rx,) + tuple(tail))


def woodbury_hint(w, h, px, P, Pinv, Sy4):
    xp = w.xp
    L = h.par["L"]
    if h.identity:
        W4 = L[:, None] - xp.einsum("aij,abjk,akl->abil", L, Pinv, L)
    else:
        LM_ = xp.einsum("aij,ajk->aik", L, h.par["M"])
        W4 = L[:, None] - xp.einsum("aij,abjk,alk->abil", LM_, Pinv, LM_)
    return w.have_inverse(Sy4, W4, "Woodbury (Matrix.add_mul_mul_inv_eq_sub)"), W4


def _mk(kind, Rc, Rx, roundtrip):
    def ob(w):
        xp = w.xp
        Dy = "Dy"
        Dx = "Dy" if kind.startswith("identity") else "Dx"
        dx, dy = w.size(Dx), w.size(Dy)
        h = SP.gen_cond_handle(w, kind, "c", Rc, Dy, Dx)
        p_x, px = SP.gen_pdf(w, "x", Rx, Dx)
        diag = kind in ("diag", "identity-diag")
        if diag:
            base = SP.mods()["conditional"].ConditionalGaussianPDF if kind == "diag" else SP.mods()["conditional"].ConditionalIdentityGaussianPDF
            w.check("inherits-general-method",
                    type(h.obj).affine_conditional_transformation is base.affine_conditional_transformation,
                    "diagonal kind must inherit affine_conditional_transformation")
        P = post_precision(w, h, px)                                    # [A,B,Dx,Dx]
        Sy4, _ = LM.sylvester(w, h.par["S"], h.par["ld"], px["S"], px["ld"], h.par["M"], P)
        from .common import fresh_result, params_unchanged, snapshot as _snap
        spx_, sc_ = _snap(p_x), _snap(h.obj)
        post = h.call("affine_conditional_transformation", p_x)        # REAL
        fresh_result(w, "frame/result-is-a-new-object", post, p_x, h.obj)
        params_unchanged(w, "frame/prior-unchanged", p_x, spx_, ("Sigma", "mu", "Lambda", "nu", "ln_beta", "ln_det_Sigma", "lnZ"))
        params_unchanged(w, "frame/conditional-unchanged", h.obj, sc_, ("M", "b", "Sigma", "Lambda", "ln_det_Sigma"))
        wf_conditional(w, "result", post)
        Pinv = w.inv(P)
        L = h.par["L"]
        nux = xp.einsum("bij,bj->bi", px["L"], px["mu"])
        if h.identity:
            M_s = xp.einsum("abij,ajk->abik", Pinv, L)
            b_s = xp.einsum("abij,bj->abi", Pinv, nux)
        else:
            MtL = xp.einsum("aji,ajk->aik", h.par["M"], L)                 # M' Λ  [A,Dx,Dy]
            M_s = xp.einsum("abij,ajk->abik", Pinv, MtL)
            b_s = xp.einsum("abij,abj->abi", Pinv, nux[None] - xp.einsum("aij,aj->ai", MtL, h.par["b"])[:, None])
        w.equal("value/M", post.M, _merge(w, M_s, Rc, Rx, (dx, dy)))
        w.equal("value/b", post.b, _merge(w, b_s, Rc, Rx, (dx,)))
        w.equal("value/Lambda", post.Lambda, _merge(w, P, Rc, Rx, (dx, dx)))
        if diag:
            return
        # ---- Bayes: p(x|y) p(y) == p(y|x) p(x) at all points, p(y) from the REAL marginal transformation
        ok, W4 = woodbury_hint(w, h, px, P, Pinv, Sy4)
        p_y = h.call("affine_marginal_transformation", p_x)            # REAL
        x = w.arr("x", "Nx", Dx)
        y = w.arr("y", "Ny", Dy)
        nx, ny = w.size("Nx"), w.size("Ny")
        lhs1 = post.condition_on_x(y).evaluate_ln(x)                    # REAL  [(R*Ny), Nx]
        lhs2 = p_y.evaluate_ln(y)                                       # REAL  [R, Ny]
        rc = 1 if Rc == 1 else w.size(Rc)
        rx = 1 if Rx == 1 else w.size(Rx)
        lhs = xp.reshape(lhs1, (rc * rx, ny, nx)) + lhs2[:, :, None]
        if h.identity:
            mean = x[None]                                                  # [1,Nx,Dy]
        else:
            mean = xp.einsum("aij,mj->ami", h.par["M"], x) + h.par["b"][:, None]
        r = y[None, :, None, :] - mean[:, None]                            # [A,Ny,Nx,Dy]
        ln_lik = -0.5 * xp.einsum("anmi,aij,anmj->anm", r, L, r) - 0.5 * dy * w.log2pi() - 0.5 * h.par["ld"][:, None, None]
        rxm = x[None] - px["mu"][:, None]                                   # [B,Nx,Dx]
        ln_px = -0.5 * xp.einsum("bmi,bij,bmj->bm", rxm, px["L"], rxm) - 0.5 * dx * w.log2pi() - 0.5 * px["ld"][:, None]
        rhs = ln_lik[:, None] + ln_px[None, :, None, :]                    # [A,B,Ny,Nx]
        w.equal("bayes/p(x|y)p(y)=p(y|x)p(x)", lhs, xp.reshape(rhs, (rc * rx, ny, nx)))
        if not roundtrip:
            return
        # ---- round trips, component by component (a batch on both sides is a documented refusal)
        if Rc == 1 and Rx == 1:
            post1, py1 = post, p_y
            sel = None
        else:
            sel = w.pick("r0", Rc if Rc != 1 else Rx)
            post1, py1 = post.slice(sel), p_y.slice(sel)                # REAL
        back = post1.affine_conditional_transformation(py1)            # REAL
        px_back = post1.affine_marginal_transformation(py1)            # REAL

        def at(a, which):
            """component r0 of an abstract parameter with batch of the cond (which='c') or of p_x (which='x')"""
            if sel is None:
                return a
            if (which == "c" and Rc == 1) or (which == "x" and Rx == 1):
                return a
            return xp.take(a, sel, axis=0)
        # ghost: the round-trip precision IS the original precision, hence its inverse / determinant are the original ones
        w.have_inverse(back.Lambda, at(h.par["S"], "c"), "uniqueness of the inverse")
        w.ld_congruence(back.Lambda, at(L, "c"))
        if not h.identity:
            w.equal("roundtrip/M", back.M, at(h.par["M"], "c"))
            w.equal("roundtrip/b", back.b, at(h.par["b"], "c"))
        else:
            w.equal("roundtrip/M=I", back.M, xp.eye(dy)[None])
            w.equal("roundtrip/b=0", back.b, 0.0 * at(h.par["ld"], "c")[:, None] * xp.ones((1, dy)))
        w.equal("roundtrip/Lambda", back.Lambda, at(L, "c"))
        w.equal("roundtrip/Sigma", back.Sigma, at(h.par["S"], "c"))
        w.equal("roundtrip/ln_det_Sigma", back.ln_det_Sigma, at(h.par["ld"], "c"))
        w.equal("roundtrip/marginal-mu", px_back.mu, at(px["mu"], "x"))
        w.equal("roundtrip/marginal-Sigma", px_back.Sigma, at(px["S"], "x"))
    return ob


def _register():
    for kind in SP.COND_KINDS:
        cls = SP.COND_CLS[kind]
        for (Rc, Rx) in LAYOUTS:
            sorts = [s for s in (Rc, Rx) if s != 1] + ["Dy", "Ny", "Nx"] + ([] if kind.startswith("identity") else ["Dx"]) + (["Du"] if kind == "nn" else [])
            REG.ob(f"{cls}.affine_conditional_transformation/R=({Rc},{Rx})", sorts=sorts,
                   funcs=[f"conditional.{cls}.affine_conditional_transformation", f"conditional.{cls}.affine_marginal_transformation",
                          "conditional.ConditionalGaussianPDF.__post_init__", "conditional.ConditionalGaussianPDF.condition_on_x",
                          "conditional.ConditionalGaussianPDF.slice", "pdf.GaussianPDF.slice", "factor.ConjugateFactor.evaluate_ln"],
                   axioms=[], lemmas=["GtvLemmas.det_add_mul_mul_transpose", "Matrix.add_mul_mul_inv_eq_sub (Woodbury)"])(
                _mk(kind, Rc, Rx, roundtrip=(kind in ("full", "identity", "nn"))))


_register()


def _register_unit():
    """size-one configurations of a DIMENSION sort (a generic sort stands for sizes >= 2): scalar observation (Dy = 1), scalar
    latent (Dx = 1) -- added after a seeded `if self.Dy == 1:` fast path was missed"""
    for kind in ("full", "nn"):
        cls = SP.COND_CLS[kind]
        for (Rc, Rx) in (("Rc", 1), (1, "Rx"), (1, 1)):
            if kind == "nn" and Rc != 1:
                continue
            for unit in ("Dy", "Dx"):
                sorts = [s for s in (Rc, Rx) if s != 1] + ["Dy", "Ny", "Nx", "Dx"] + (["Du"] if kind == "nn" else [])
                # Dy = 1: the Bayes identity needs 1/(s + m'Sx m) with an inner contraction, which the kernel does not complete;
                # the posterior parameters, the class invariant and the frames are obligations, the identity is not
                REG.ob(f"{cls}.affine_conditional_transformation/R=({Rc},{Rx})/{unit}=1", sorts=sorts, unit_sorts=[unit],
                       order={("Dx", "Dy"): unit == "Dy"}, skip_clauses=(["hint/*", "bayes/*"] if unit == "Dy" else []),
                       funcs=[f"conditional.{cls}.affine_conditional_transformation"], lemmas=["GtvLemmas.det_add_mul_mul_transpose"])(
                    _mk(kind, Rc, Rx, False))


_register_unit()


def _mk_refusal(kind):
    def ob(w):
        Dx = "Dy" if kind.startswith("identity") else "Dx"
        h = SP.gen_cond_handle(w, kind, "c", "Rc", "Dy", Dx)
        p_x, px = SP.gen_pdf(w, "x", "Rx", Dx)
        w.raises("documented-refusal", (RuntimeError,), lambda: h.call("affine_conditional_transformation", p_x))
    return ob


for _kind in ("full", "identity"):
    REG.ob(f"{SP.COND_CLS[_kind]}.affine_conditional_transformation/R=(Rc,Rx)/refusal", sorts=["Rc", "Rx", "Dy"] + ([] if _kind == "identity" else ["Dx"]),
           funcs=[f"conditional.{SP.COND_CLS[_kind]}.affine_conditional_transformation"])(_mk_refusal(_kind))


from . import condctor as _cc  # noqa: E402
REG.include(_cc.REG, prefix="ctor")
