"""Shared well-formed generators for factors and measures (DESIGN §3.2) and their spec views."""
from .. import spec as SP
from ..spec import batch, mods

FACTOR_KINDS = ["general", "rank-one", "linear", "constant", "measure", "diag-measure", "pdf"]
FACTOR_CLS = {"general": "factor.ConjugateFactor", "rank-one": "factor.OneRankFactor", "linear": "factor.LinearFactor",
              "constant": "factor.ConstantFactor", "measure": "measure.GaussianMeasure",
              "diag-measure": "measure.GaussianDiagMeasure", "pdf": "pdf.GaussianPDF"}


def gen_factor(w, kind, tag, R, D):
    """conjugate factor through its REAL constructor; returns (object, view) with view = dict(L, nu, lb) built on the
    spec side from the generator atoms only"""
    F, Mm = mods()["factor"], mods()["measure"]
    xp = w.xp
    B = batch(R)
    if kind == "general":
        L = w.symm(f"L{tag}", B, D)
        nu, lb = w.arr(f"n{tag}", *B, D), w.arr(f"c{tag}", *B)
        return F.ConjugateFactor(Lambda=L, nu=nu, ln_beta=lb), dict(L=L, nu=nu, lb=lb)
    if kind == "rank-one":
        v, g = w.arr(f"v{tag}", *B, D), w.pos(f"g{tag}", *B)
        nu, lb = w.arr(f"n{tag}", *B, D), w.arr(f"c{tag}", *B)
        L = xp.einsum("r,ri,rj->rij", g, v, v)
        return F.OneRankFactor(v=v, g=g, nu=nu, ln_beta=lb), dict(L=L, nu=nu, lb=lb, v=v, g=g)
    if kind == "linear":
        nu, lb = w.arr(f"n{tag}", *B, D), w.arr(f"c{tag}", *B)
        L = 0.0 * xp.einsum("ri,rj->rij", nu, nu)
        return F.LinearFactor(nu=nu, ln_beta=lb), dict(L=L, nu=nu, lb=lb)
    if kind == "constant":
        lb = w.arr(f"c{tag}", *B)
        f = F.ConstantFactor(ln_beta=lb, num_dim=w.size(D))
        return f, dict(L=None, nu=None, lb=lb)
    if kind in ("measure", "measure+cache", "diag-measure", "diag-measure+cache"):
        return gen_measure(w, tag, R, D, cache="+cache" in kind, diag=kind.startswith("diag"))
    if kind == "pdf":
        p, par = SP.gen_pdf(w, tag, R, D)
        return p, pdf_view(w, par, D)
    raise ValueError(kind)


def pdf_view(w, par, D):
    xp = w.xp
    nu = xp.einsum("rij,rj->ri", par["L"], par["mu"])
    lnZ = 0.5 * xp.einsum("ri,ri->r", par["mu"], nu) + 0.5 * w.size(D) * w.log2pi() + 0.5 * par["ld"]
    return dict(L=par["L"], nu=nu, lb=-lnZ, S=par["S"], ld=par["ld"], mu=par["mu"])


def gen_measure(w, tag, R, D, cache=False, diag=False):
    """GaussianMeasure / GaussianDiagMeasure with positive definite precision; cache=True: covariance and
    log-determinants supplied to the constructor (the state an object is in after invert_lambda)"""
    Mm = mods()["measure"]
    B = batch(R)
    g = w.diag_spd(tag, B, D) if diag else w.spd(tag, B, D)
    nu, lb = w.arr(f"n{tag}", *B, D), w.arr(f"c{tag}", *B)
    cls = Mm.GaussianDiagMeasure if diag else Mm.GaussianMeasure
    if cache:
        u = cls(Lambda=g["L"], nu=nu, ln_beta=lb, Sigma=g["S"], ln_det_Lambda=-g["ld"], ln_det_Sigma=g["ld"])
    else:
        u = cls(Lambda=g["L"], nu=nu, ln_beta=lb)
    return u, dict(L=g["L"], nu=nu, lb=lb, S=g["S"], ld=g["ld"])


def view_lnf(w, view, x, R):
    """[R, N] log-value of the function with the given view at points x"""
    xp = w.xp
    out = view["lb"][:, None]
    if view.get("nu") is not None:
        out = out + xp.einsum("ri,ni->rn", view["nu"], x)
    if view.get("L") is not None:
        out = out - 0.5 * xp.einsum("ni,rij,nj->rn", x, view["L"], x)
    else:
        out = out + 0.0 * xp.einsum("ni,ni->n", x, x)[None]
    return out


def snapshot(obj):
    return dict(obj.__dict__)


def unchanged(obj, snap):
    """frame: every attribute still refers to the same (immutable) array object"""
    now = obj.__dict__
    if set(now) != set(snap):
        return False, f"attribute set changed: {sorted(set(now) ^ set(snap))}"
    for k, v in snap.items():
        if now[k] is not v:
            return False, f"attribute {k} was rebound"
    return True, ""


def fresh_result(w, name, res, *operands):
    """frame: the result is a NEW object (the classes have in-place methods -- normalize, update, invert_lambda,
    update_Sigma -- so an operation that hands back one of its operands lets a later in-place call corrupt that operand)"""
    shared = [type(o).__name__ for o in operands if res is o]
    w.check(name, not shared, f"the result IS the operand object ({', '.join(shared)})")


def same_state_keys(w, name, obj, keys_before):
    """frame: a query may fill the declared caches but must not grow undeclared state on the object (an undeclared memo is
    invisible to the class invariant and to every in-place method that would have to invalidate it)"""
    extra = sorted(set(obj.__dict__) - set(keys_before))
    w.check(name, not extra, f"attributes created by the operation that the class invariant does not cover: {extra}")


def params_unchanged(w, name, obj, snap, fields=("Lambda", "nu", "ln_beta")):
    """frame: the defining parameters of an operand still refer to the same (immutable) arrays; lazily filled caches may change"""
    bad = [f for f in fields if f in snap and getattr(obj, f, None) is not snap[f]]
    w.check(name, not bad, f"operand attributes rebound by the operation: {bad}")
