"""C14: expected log-factor and expected log-conditional integrals are exact (DESIGN §6-C14)."""
from ..runner import Registry
from .. import spec as SP
from .common import gen_factor, gen_measure
from .C13 import neg_expected_lnN

REG = Registry("C14")
AX = ["G1 Gaussian integral", "G2 Isserlis/Wick"]


def _mk_log_factor(fkind, Rphi, Rf, cache):
    def ob(w):
        xp = w.xp
        phi, pv = gen_measure(w, "p", Rphi, "D", cache=cache)
        f, fv = gen_factor(w, fkind, "f", Rf, "D")
        if Rf not in (1, Rphi):
            w.raises("documented-refusal", (NotImplementedError,), lambda: phi.integrate("log u(x)", factor=f))
            return
        val = phi.integrate("log u(x)", factor=f)                        # REAL
        mu = xp.einsum("rij,rj->ri", pv["S"], pv["nu"])
        mass = xp.exp(SP.lnmass(w, pv["S"], pv["nu"], pv["lb"], -pv["ld"], w.size("D")))
        E = fv["lb"] + 0.0 * pv["lb"]
        if fv.get("nu") is not None:
            E = E + xp.einsum("ri,ri->r", fv["nu"], mu)
        if fv.get("L") is not None:
            E = E - 0.5 * SP.wick(w, mu, pv["S"], [(None, None), (fv["L"], None)], "kk", "", "D")
        w.equal("value", val, mass * E)
    return ob


def _mk_log_cond(kind, Rq, paired=False):
    """integrate_log_conditional(q): expectation of ln p(y|x) under ANY Gaussian q over (y, x); paired: R conditionals with R
    densities, component by component"""
    def ob(w):
        xp = w.xp
        Dy = "Dy"
        Dx = "Dy" if kind.startswith("identity") else "Dx"
        h = SP.gen_cond_handle(w, kind, "c", Rq if paired else 1, Dy, Dx)
        P = SP.mods()["pdf"]
        B = [Rq] if Rq != 1 else [1]
        g = w.block_gaussian("q", B, [Dy, Dx])
        q = P.GaussianPDF(Sigma=g["S"], mu=g["mu"], Lambda=g["L"], ln_det_Sigma=g["ld"])   # any well-typed density
        val = h.call("integrate_log_conditional", q)                     # REAL
        dy = w.size(Dy)
        eye = xp.eye(dy)[None]
        if paired:
            eye = xp.tile(eye, (w.size(Rq), 1, 1))
        if h.identity:
            A = xp.concatenate([eye, -eye], axis=2)
            a = None
            LA = xp.einsum("rij,rjk->rik", h.par["L"], A)
            La = None
        else:
            A = xp.concatenate([eye, -h.par["M"]], axis=2)
            a = -h.par["b"]
            LA = xp.einsum("rij,rjk->rik", h.par["L"], A)
            La = xp.einsum("rij,rj->ri", h.par["L"], a)
        quad = SP.wick(w, g["mu"], g["S"], [(A, a), (LA, La)], "kk", "", xp.eye(1) if False else None) if False else \
            _wick_block(w, g, A, a, LA, La)
        spec = -0.5 * quad - 0.5 * dy * w.log2pi() - 0.5 * h.par["ld"]
        w.equal("value", val, spec)
    return ob


def _wick_block(w, g, A, a, LA, La):
    """E_q[(Az+a)'(LAz+La)] for z ~ N(mu_q, S_q) over the block space (Isserlis, written out)"""
    xp = w.xp
    m1 = xp.einsum("rkd,rd->rk", A, g["mu"])
    m2 = xp.einsum("rkd,rd->rk", LA, g["mu"])
    if a is not None:
        m1 = m1 + a
        m2 = m2 + La
    cov = xp.einsum("rkd,rde,rke->r", A, g["S"], LA)
    return cov + xp.einsum("rk,rk->r", m1, m2)


def _mk_log_cond_y(kind, Rx, evaluated):
    """integrate_log_conditional_y(p_x): the function y -> E_{p(x)}[ln p(y|x)]"""
    def ob(w):
        xp = w.xp
        Dy = "Dy"
        Dx = "Dy" if kind.startswith("identity") else "Dx"
        h = SP.gen_cond_handle(w, kind, "c", 1, Dy, Dx)
        p_x, px = SP.gen_pdf(w, "x", Rx, Dx)
        # the returned function pairs observation n with component n of p_x (or broadcasts a single p_x)
        y = w.arr("y", Rx if Rx != 1 else "Ny", Dy)
        if evaluated:
            val = h.call("integrate_log_conditional_y", p_x, y=y)       # REAL
        else:
            fn = h.call("integrate_log_conditional_y", p_x)             # REAL: callable
            w.check("returns-callable", callable(fn), f"got {type(fn).__name__}")
            val = fn(y)
        dy = w.size(Dy)
        # y - Mx - b is affine in x: forms (-M, y - b)
        if h.identity:
            A = -xp.eye(dy)[None]
            a = y
        else:
            A = -h.par["M"]
            a = y - h.par["b"]
        LA = xp.einsum("rij,rjk->rik", h.par["L"], A)
        La = xp.einsum("rij,nj->ni", h.par["L"], a)
        quad = SP.wick(w, px["mu"], px["S"], [(A, a), (LA, La)], "kk", "", Dx)
        w.equal("value", val, -0.5 * quad - 0.5 * dy * w.log2pi() - 0.5 * h.par["ld"])
    return ob


def _mk_rbf_log_cond_y(Rx, evaluated, kind="rbf"):
    """RBF feature model: y -> E_{p(x)}[ln N(y; Mx x + Mk k(x) + b, Sigma)] from the kernel moments (axiom G1)"""
    from .C16 import gen_feature_cond, kernel_moments

    def ob(w):
        xp = w.xp
        obj, par, Kp = gen_feature_cond(w, kind)
        p_x, px = SP.gen_pdf(w, "x", Rx, "Dx")
        y = w.arr("y", Rx if Rx != 1 else "Ny", "Dy")
        if evaluated:
            val = obj.integrate_log_conditional_y(p_x, y=y)               # REAL
        else:
            fn = obj.integrate_log_conditional_y(p_x)                     # REAL: callable
            w.check("returns-callable", callable(fn), f"got {type(fn).__name__}")
            val = fn(y)
        Ek, Exk, Ekk = kernel_moments(w, px, Kp, "Dx")
        Mx, Mk, b, L = par["Mx"][0], par["Mk"][0], par["b"][0], par["L"][0]
        mu = px["mu"]
        Exx = px["S"] + xp.einsum("ri,rj->rij", mu, mu)
        yb = y - b[None]                                                    # [N, Dy] (N = Rx paired, or broadcast)
        Em = xp.einsum("ai,ri->ra", Mx, mu) + xp.einsum("ak,rk->ra", Mk, Ek)    # E[Mx x + Mk k]
        q1 = xp.einsum("na,ab,nb->n", yb, L, yb)
        q2 = xp.einsum("na,ab,rb->n" if Rx == 1 else "na,ab,nb->n", yb, L, Em)
        q3 = (xp.einsum("ai,ab,bj,rij->r", Mx, L, Mx, Exx) + 2.0 * xp.einsum("ai,ab,bk,rki->r", Mx, L, Mk, Exk)
              + xp.einsum("ak,ab,bl,rkl->r", Mk, L, Mk, Ekk))
        spec = -0.5 * (q1 - 2.0 * q2 + q3) - 0.5 * w.size("Dy") * w.log2pi() - 0.5 * par["ld"]
        w.equal("value", val, spec)
    return ob


def _mk_feature_log_cond(kind, Rq, give_px):
    """RBF / squared-exponential feature models: E_q[ln N(y; Mx x + Mk k(x) + b, Sigma)] for an ARBITRARY Gaussian q over (y, x)
    (written in its conditional factorisation q(x) q(y|x), y|x ~ N(Gx+g, Sq)), from the kernel moments under q(x):
      E[r'Lr] - 2 sum_i Mk[:,i]' L ((G-Mx) E[x k_i] + (g-b) E[k_i]) + sum_ij Mk[:,i]' L Mk[:,j] E[k_i k_j],  r = y - Mx x - b"""
    from .C16 import gen_feature_cond, kernel_moments
    from .wf import wf_measure

    def ob(w):
        xp = w.xp
        obj, par, Kp = gen_feature_cond(w, kind)
        P = SP.mods()["pdf"]
        g = SP.gen_factored_joint(w, "j", Rq, "Dy", "Dx")
        q = P.GaussianPDF(Sigma=g["S"], mu=g["mu"], Lambda=g["L"], ln_det_Sigma=g["ld"])
        wf_measure(w, "generator", q, is_pdf=True)
        px = g["px"]
        if give_px:
            p_x = P.GaussianPDF(Sigma=px["S"], mu=px["mu"], Lambda=px["L"], ln_det_Sigma=px["ld"])
            val = obj.integrate_log_conditional(q, p_x=p_x)                # REAL
        else:
            val = obj.integrate_log_conditional(q)                         # REAL
        Ek, Exk, Ekk = kernel_moments(w, px, Kp, "Dx")
        Mx, Mk, b, L = par["Mx"][0], par["Mk"][0], par["b"][0], par["L"][0]
        dy = w.size("Dy")
        eye = xp.eye(dy)[None]
        A = xp.concatenate([eye, -par["Mx"]], axis=2)
        LA = xp.einsum("rij,rjk->rik", par["L"], A)
        a = -par["b"]
        La = xp.einsum("rij,rj->ri", par["L"], a)
        quad = _wick_block(w, g, A, a, LA, La)
        D = g["G"] - Mx[None]                                            # [R, Dy, Dx]
        d0 = g["g"] - b[None]                                            # [R, Dy]
        Er_k = xp.einsum("raj,rkj->rka", D, Exk) + xp.einsum("ra,rk->rka", d0, Ek)      # E[r k_i]  [R, Dk, Dy]
        cross = xp.einsum("ak,ab,rkb->r", Mk, L, Er_k)
        kk = xp.einsum("ak,ab,bl,rkl->r", Mk, L, Mk, Ekk)
        spec = -0.5 * (quad - 2.0 * cross + kk) - 0.5 * dy * w.log2pi() - 0.5 * par["ld"]
        w.equal("value", val, spec)
    return ob


def _register():
    for Rx in ("N", 1):
        for evaluated in (False, True):
            REG.ob(f"LRBFGaussianConditional.integrate_log_conditional_y/Rx={Rx}/{'evaluated' if evaluated else 'callable'}",
                   sorts=(["N"] if Rx != 1 else ["Ny"]) + ["Dx", "Dy", "Dk"],
                   funcs=["approximate_conditional.LRBFGaussianConditional.integrate_log_conditional_y", "approximate_conditional.LRBFGaussianConditional.update_phi"],
                   axioms=AX, tier="quick" if evaluated else "thorough")(_mk_rbf_log_cond_y(Rx, evaluated))
            REG.ob(f"LSEMGaussianConditional.integrate_log_conditional_y/Rx={Rx}/{'evaluated' if evaluated else 'callable'}",
                   sorts=(["N"] if Rx != 1 else ["Ny"]) + ["Dx", "Dy", "Dk"],
                   funcs=["approximate_conditional.LSEMGaussianConditional.integrate_log_conditional_y", "approximate_conditional.LSEMGaussianConditional.update_phi"],
                   axioms=AX, lemmas=["GtvLemmas.det_rank_one_update"],
                   tier="quick" if evaluated else "thorough")(_mk_rbf_log_cond_y(Rx, evaluated, "lsem"))
    for kind, cls in (("rbf", "LRBFGaussianConditional"), ("lsem", "LSEMGaussianConditional")):
        for Rq in ("R", 1):
            for give_px in (False, True):
                REG.ob(f"{cls}.integrate_log_conditional/Rq={Rq}/p_x={'given' if give_px else 'marginal'}",
                       sorts=(["R"] if Rq != 1 else []) + ["Dx", "Dy", "Dk"],
                       funcs=[f"approximate_conditional.{cls}.integrate_log_conditional", f"approximate_conditional.{cls}.update_phi",
                              "factor.ConjugateFactor._multiply_with_measure", "pdf.GaussianPDF.get_marginal"],
                       axioms=AX, lemmas=["GtvLemmas.inv_fromBlocks11", "GtvLemmas.det_fromBlocks11", "GtvLemmas.det_fromBlocks22"],
                       tier="quick" if (Rq == 1) == give_px else "thorough")(_mk_feature_log_cond(kind, Rq, give_px))
    for fkind in ("general", "rank-one", "linear", "constant", "measure", "pdf"):
        for (Rphi, Rf) in (("R", "R"), ("R", 1), (1, 1), ("R", "R2")):
            for cache in (False, True):
                if cache and Rphi == 1:
                    continue
                REG.ob(f"integrate[log u(x)]/{fkind}/R=({Rphi},{Rf})/cache={int(cache)}",
                       sorts=sorted({s for s in (Rphi, Rf) if s != 1}) + ["D"],
                       funcs=["factor.ConjugateFactor._integrate_log_factor", "measure.GaussianMeasure.integrate_log_factor",
                              "measure.GaussianMeasure.integrate_general_quadratic_inner", "measure.GaussianMeasure.integrate_x"],
                       axioms=AX)(_mk_log_factor(fkind, Rphi, Rf, cache))
    for kind in ("full", "diag", "identity", "identity-diag", "nn"):
        cls = SP.COND_CLS[kind]
        for Rq in ("R", 1):
            REG.ob(f"{cls}.integrate_log_conditional/Rq={Rq}",
                   sorts=(["R"] if Rq != 1 else []) + ["Dy"] + ([] if kind.startswith("identity") else ["Dx"]) + (["Du"] if kind == "nn" else []),
                   funcs=[f"conditional.{cls}.integrate_log_conditional", "measure.GaussianMeasure.integrate_general_quadratic_inner",
                          "measure.GaussianMeasure._expectation_general_quadratic_inner"], axioms=AX)(_mk_log_cond(kind, Rq))
        if kind in ("full", "diag"):
            REG.ob(f"{cls}.integrate_log_conditional/paired-R", sorts=["R", "Dy"] + ([] if kind.startswith("identity") else ["Dx"]),
                   funcs=[f"conditional.{cls}.integrate_log_conditional"], axioms=AX)(_mk_log_cond(kind, "R", True))
        for Rx in ("N", 1):
            for evaluated in (False, True):
                REG.ob(f"{cls}.integrate_log_conditional_y/Rx={Rx}/{'evaluated' if evaluated else 'callable'}",
                       sorts=(["N"] if Rx != 1 else ["Ny"]) + ["Dy"] + ([] if kind.startswith("identity") else ["Dx"]) + (["Du"] if kind == "nn" else []),
                       funcs=[f"conditional.{cls}.integrate_log_conditional_y", "measure.GaussianMeasure.integrate_general_quadratic_inner",
                              "measure.GaussianMeasure.integrate_general_linear"], axioms=AX)(_mk_log_cond_y(kind, Rx, evaluated))


_register()


def _mk_log_cond_refusal(kind, which):
    def ob(w):
        Dx = "Dy" if kind.startswith("identity") else "Dx"
        h = SP.gen_cond_handle(w, kind, "c", "Rc", "Dy", Dx)
        P = SP.mods()["pdf"]
        if which == "joint":
            g = w.block_gaussian("q", ["Rq"], ["Dy", Dx])
            q = P.GaussianPDF(Sigma=g["S"], mu=g["mu"], Lambda=g["L"], ln_det_Sigma=g["ld"])
            w.raises("documented-refusal", (NotImplementedError,), lambda: h.call("integrate_log_conditional", q))
        else:
            p_x, _ = SP.gen_pdf(w, "x", 1, Dx)
            w.raises("documented-refusal", (NotImplementedError,), lambda: h.call("integrate_log_conditional_y", p_x))
    return ob


for _kind in ("full", "identity", "identity-diag"):
    for _which in ("joint", "y"):
        _m = "integrate_log_conditional" if _which == "joint" else "integrate_log_conditional_y"
        REG.ob(f"{SP.COND_CLS[_kind]}.{_m}/batched-conditional/refusal",
               sorts=["Rc", "Dy"] + (["Rq"] if _which == "joint" else []) + ([] if _kind.startswith("identity") else ["Dx"]),
               funcs=[f"conditional.{SP.COND_CLS[_kind]}.{_m}"])(_mk_log_cond_refusal(_kind, _which))


def _mk_feature_refusal(kind, which):
    def ob(w):
        A = SP.mods()["approximate_conditional"]
        xp = w.xp
        g = w.spd("c", ["Rc"], "Dy")
        M = xp.concatenate([w.arr("Mx", "Rc", "Dy", "Dx"), w.arr("Mk", "Rc", "Dy", "Dk")], axis=2)
        b = w.arr("bc", "Rc", "Dy")
        if kind == "rbf":
            obj = A.LRBFGaussianConditional(M=M, b=b, mu=w.arr("sk", "Dk", "Dx"), length_scale=w.pos("lk", "Dk", "Dx"),
                                            Sigma=g["S"], Lambda=g["L"], ln_det_Sigma=g["ld"])
        else:
            W = xp.concatenate([w.arr("w0", "Dk")[:, None], w.arr("wk", "Dk", "Dx")], axis=1)
            obj = A.LSEMGaussianConditional(M=M, b=b, W=W, Sigma=g["S"], Lambda=g["L"], ln_det_Sigma=g["ld"])
        P = SP.mods()["pdf"]
        p_x, _ = SP.gen_pdf(w, "x", 1, "Dx")
        if which == "joint":
            gq = SP.gen_factored_joint(w, "j", 1, "Dy", "Dx")
            q = P.GaussianPDF(Sigma=gq["S"], mu=gq["mu"], Lambda=gq["L"], ln_det_Sigma=gq["ld"])
            w.raises("documented-refusal", (NotImplementedError,), lambda: obj.integrate_log_conditional(q))
        else:
            w.raises("documented-refusal", (NotImplementedError,), lambda: obj.integrate_log_conditional_y(p_x))
    return ob


for _kind, _cls in (("rbf", "LRBFGaussianConditional"), ("lsem", "LSEMGaussianConditional")):
    for _which in ("joint", "y"):
        _m = "integrate_log_conditional" if _which == "joint" else "integrate_log_conditional_y"
        REG.ob(f"{_cls}.{_m}/batched-conditional/refusal", sorts=["Rc", "Dy", "Dx", "Dk"],
               funcs=[f"approximate_conditional.{_cls}.{_m}"])(_mk_feature_refusal(_kind, _which))


def _mk_nn_refusal(which):
    """NN-controlled conditional: more than one control row is a documented refusal for the expected log-likelihoods"""
    def ob(w):
        h = SP.gen_cond_handle(w, "nn", "c", "Ru", "Dy", "Dx")
        P = SP.mods()["pdf"]
        if which == "joint":
            g = w.block_gaussian("q", [1], ["Dy", "Dx"])
            q = P.GaussianPDF(Sigma=g["S"], mu=g["mu"], Lambda=g["L"], ln_det_Sigma=g["ld"])
            w.raises("documented-refusal", (NotImplementedError,), lambda: h.call("integrate_log_conditional", q))
        else:
            p_x, _ = SP.gen_pdf(w, "x", 1, "Dx")
            w.raises("documented-refusal", (NotImplementedError,), lambda: h.call("integrate_log_conditional_y", p_x))
    return ob


for _which in ("joint", "y"):
    _m = "integrate_log_conditional" if _which == "joint" else "integrate_log_conditional_y"
    REG.ob(f"NNControlGaussianConditional.{_m}/batched-control/refusal", sorts=["Ru", "Dy", "Dx", "Du"],
           funcs=[f"conditional.NNControlGaussianConditional.{_m}"])(_mk_nn_refusal(_which))


from . import condctor as _cc  # noqa: E402
REG.include(_cc.REG, prefix="ctor")
