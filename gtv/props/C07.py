"""C07: joint transformation is the chain rule p(x,y) = p(y|x) p(x) (DESIGN §6-C07)."""
from ..runner import Registry
from .. import spec as SP
from .wf import wf_measure
from .C08 import LAYOUTS

REG = Registry("C07")


def _mk(kind, Rc, Rx, regime, px_diag=False):
    def ob(w):
        xp = w.xp
        Dy = "Dy"
        Dx = "Dy" if kind.startswith("identity") else "Dx"
        dx, dy = w.size(Dx), w.size(Dy)
        h = SP.gen_cond_handle(w, kind, "c", Rc, Dy, Dx)
        p_x, px = SP.gen_pdf(w, "x", Rx, Dx, diag=px_diag)
        from .common import fresh_result, params_unchanged, snapshot as _snap
        spx_, sc_ = _snap(p_x), _snap(h.obj)
        joint = h.call("affine_joint_transformation", p_x)              # REAL
        fresh_result(w, "frame/result-is-a-new-object", joint, p_x, h.obj)
        params_unchanged(w, "frame/prior-unchanged", p_x, spx_, ("Sigma", "mu", "Lambda", "nu", "ln_beta", "ln_det_Sigma", "lnZ"))
        params_unchanged(w, "frame/conditional-unchanged", h.obj, sc_, ("M", "b", "Sigma", "Lambda", "ln_det_Sigma"))
        rc = 1 if Rc == 1 else w.size(Rc)
        rx = 1 if Rx == 1 else w.size(Rx)
        R = rc * rx
        par = h.par
        # ---- block mean / covariance == spec (x first)
        if h.identity:
            mu_y = px["mu"][None] + 0.0 * par["ld"][:, None, None]
            C = px["S"][None] + 0.0 * par["S"][:, None]                      # Cov[y,x] = M Sx
            Sy = par["S"][:, None] + px["S"][None]
        else:
            mu_y = xp.einsum("aij,bj->abi", par["M"], px["mu"]) + par["b"][:, None]
            C = xp.einsum("aij,bjk->abik", par["M"], px["S"])
            Sy = par["S"][:, None] + xp.einsum("abik,alk->abil", C, par["M"])
        mu_x = px["mu"][None] + 0.0 * par["ld"][:, None, None]
        Sx = px["S"][None] + 0.0 * par["ld"][:, None, None, None]
        mu_xy = xp.concatenate([xp.reshape(mu_x, (R, dx)), xp.reshape(mu_y, (R, dy))], axis=1)
        Sxx, Syx, Syy = xp.reshape(Sx, (R, dx, dx)), xp.reshape(C, (R, dy, dx)), xp.reshape(Sy, (R, dy, dy))
        S_xy = xp.concatenate([xp.concatenate([Sxx, xp.swapaxes(Syx, 1, 2)], axis=2),
                               xp.concatenate([Syx, Syy], axis=2)], axis=1)
        w.equal("value/mu", joint.mu, mu_xy)
        w.equal("value/Sigma", joint.Sigma, S_xy)
        wf_measure(w, "result", joint, is_pdf=True)
        # ---- chain rule at all points
        x = w.arr("x", "N", Dx)
        y = w.arr("y", "N", Dy)
        xy = xp.concatenate([x, y], axis=1)
        val = joint.evaluate_ln(xy, element_wise=False)                 # REAL  [R, N]
        if h.identity:
            mean = x[None]
        else:
            mean = xp.einsum("aij,nj->ani", par["M"], x) + par["b"][:, None]
        r = y[None] - mean
        ln_lik = -0.5 * xp.einsum("ani,aij,anj->an", r, par["L"], r) - 0.5 * dy * w.log2pi() - 0.5 * par["ld"][:, None]
        rxm = x[None] - px["mu"][:, None]
        ln_px = -0.5 * xp.einsum("bni,bij,bnj->bn", rxm, px["L"], rxm) - 0.5 * dx * w.log2pi() - 0.5 * px["ld"][:, None]
        w.equal("chain-rule/p(x,y)=p(y|x)p(x)", val, xp.reshape(ln_lik[:, None] + ln_px[None], (R, w.size("N"))))
    return ob


def _mk_refusal(kind):
    def ob(w):
        Dx = "Dy" if kind.startswith("identity") else "Dx"
        h = SP.gen_cond_handle(w, kind, "c", "Rc", "Dy", Dx)
        p_x, px = SP.gen_pdf(w, "x", "Rx", Dx)
        w.raises("documented-refusal", (RuntimeError,), lambda: h.call("affine_joint_transformation", p_x))
    return ob


def _register():
    for kind in SP.COND_KINDS:
        cls = SP.COND_CLS[kind]
        regimes = ["Dx=Dy"] if kind.startswith("identity") else ["Dx>Dy", "Dx<=Dy"]
        for (Rc, Rx) in LAYOUTS:
            for regime in regimes:
                order = {}
                if regime == "Dx>Dy":
                    order[("Dx", "Dy")] = True
                elif regime == "Dx<=Dy":
                    order[("Dx", "Dy")] = False
                sorts = [s for s in (Rc, Rx) if s != 1] + ["Dy", "N"] + ([] if kind.startswith("identity") else ["Dx"]) + (["Du"] if kind == "nn" else [])
                REG.ob(f"{cls}.affine_joint_transformation/R=({Rc},{Rx})/{regime}", sorts=sorts, order=order,
                       funcs=[f"conditional.{cls}.affine_joint_transformation", f"conditional.{cls}.get_conditional_mu",
                              "pdf.GaussianPDF.__post_init__", "factor.ConjugateFactor.evaluate_ln"],
                       lemmas=["GtvLemmas.det_fromBlocks11", "GtvLemmas.det_fromBlocks22"])(_mk(kind, Rc, Rx, regime))
        REG.ob(f"{cls}.affine_joint_transformation/R=(Rc,Rx)/refusal", sorts=["Rc", "Rx", "Dy"] + ([] if kind.startswith("identity") else ["Dx"]) + (["Du"] if kind == "nn" else []),
               order={("Dx", "Dy"): True},
               funcs=[f"conditional.{cls}.affine_joint_transformation"])(_mk_refusal(kind))


_register()


def _register_more():
    # prior given as a GaussianDiagPDF; size-one dimension sorts (a generic sort stands for sizes >= 2)
    for kind in ("full", "identity"):
        cls = SP.COND_CLS[kind]
        for (Rc, Rx) in LAYOUTS:
            regimes = ["Dx=Dy"] if kind == "identity" else ["Dx>Dy", "Dx<=Dy"]
            for regime in regimes:
                order = {("Dx", "Dy"): True} if regime == "Dx>Dy" else ({("Dx", "Dy"): False} if regime == "Dx<=Dy" else {})
                sorts = [s for s in (Rc, Rx) if s != 1] + ["Dy", "N"] + ([] if kind == "identity" else ["Dx"])
                REG.ob(f"{cls}.affine_joint_transformation/R=({Rc},{Rx})/{regime}/prior=GaussianDiagPDF", sorts=sorts, order=order,
                       funcs=[f"conditional.{cls}.affine_joint_transformation", "pdf.GaussianDiagPDF.__post_init__"],
                       lemmas=["GtvLemmas.det_fromBlocks11", "GtvLemmas.det_fromBlocks22", "GtvLemmas.det_diagonal"])(_mk(kind, Rc, Rx, regime, True))
    for unit, regime in (("Dy", "Dx>Dy"), ("Dx", "Dx<=Dy")):
        for (Rc, Rx) in LAYOUTS:
            sorts = [s for s in (Rc, Rx) if s != 1] + ["Dy", "N", "Dx"]
            REG.ob(f"ConditionalGaussianPDF.affine_joint_transformation/R=({Rc},{Rx})/{unit}=1", sorts=sorts, unit_sorts=[unit],
                   order={("Dx", "Dy"): unit == "Dy"},
                   funcs=["conditional.ConditionalGaussianPDF.affine_joint_transformation"],
                   lemmas=["GtvLemmas.det_fromBlocks11", "GtvLemmas.det_fromBlocks22"])(_mk("full", Rc, Rx, regime))


_register_more()


from . import condctor as _cc  # noqa: E402
REG.include(_cc.REG, prefix="ctor")
