"""C18: JAX transformations and round trips preserve values (DESIGN §6-C18) -- the part a contract can decide:
pytree flatten/unflatten round trips (the real registration lambdas), to_dict/from_dict round trips, and the structural
precondition of jit/vmap/scan: every pytree child is an array or None (a Python int or a callable exported as a child is
traced, which breaks shape arithmetic / is not a JAX type).  Numerical agreement of jit/vmap/grad with eager execution
is JAX semantics and is not claimed; in the numeric world the same clauses are replayed with the real jax.jit."""
from ..runner import Registry
from .. import spec as SP
from .common import gen_factor, gen_measure

REG = Registry("C18")
KINDS = ["general", "rank-one", "linear", "constant", "measure", "measure+cache", "measure+queried", "diag-measure", "pdf", "diag-pdf",
         "pdf+updated", "diag-pdf+updated",
         "cond-full", "cond-diag", "cond-identity", "cond-identity-diag", "cond-nn"]


def _build(w, kind, R):
    if kind.startswith("cond-"):
        h = SP.gen_cond_handle(w, kind[5:], "c", R, "Dy", "Dy" if "identity" in kind else "Dx")
        w._last_u = h.u
        return h.obj
    if kind == "measure+queried":
        u, _ = gen_measure(w, "u", R, "D")
        u.log_integral()          # populates Sigma, ln_det, lnZ, mu
        return u
    if kind.endswith("+updated"):
        # history: a batched density some of whose components were overwritten in place by update()
        diag = kind.startswith("diag")
        p = SP.gen_pdf(w, "p", R, "D", diag=diag)[0]
        d = SP.gen_pdf(w, "d", "Rn", "D", diag=diag)[0]
        p.update(w.index_map("idx", "Rn", R), d)                         # REAL (in place)
        return p
    if kind == "diag-pdf":
        return SP.gen_pdf(w, "p", R, "D", diag=True)[0]
    return gen_factor(w, kind, "f", R, "D")[0]


def _captured_pytree_funcs(cls):
    """run the REAL register_dataclass_type_with_jax_tree_util with jax.tree_util.register_pytree_node substituted, so the
    registration lambdas are captured; every other attribute of `jax` is the real one (a missing jax.util stays missing)"""
    import jax as real_jax
    DC = SP.mods()["utils.dataclass"]
    got = {}

    class _TU:
        @staticmethod
        def register_pytree_node(nodetype=None, flatten_func=None, unflatten_func=None, *a, **k):
            got["flatten"], got["unflatten"] = flatten_func, unflatten_func

    class _Jax:
        tree_util = _TU()

        def __getattr__(self, name):
            return getattr(real_jax, name)
    saved = DC.__dict__["jax"]
    DC.__dict__["jax"] = _Jax()
    try:
        DC.register_dataclass_type_with_jax_tree_util(cls)
    finally:
        DC.__dict__["jax"] = saved
    return got["flatten"], got["unflatten"], DC


def _same_attrs(w, pfx, a, b):
    ka, kb = set(a.__dict__), set(b.__dict__)
    w.check(f"{pfx}/same-attribute-set", ka == kb, f"{sorted(ka ^ kb)}")
    for k in sorted(ka & kb):
        va, vb = a.__dict__[k], b.__dict__[k]
        if va is None or vb is None:
            w.check(f"{pfx}/{k}", va is None and vb is None, f"{k}: {va!r} vs {vb!r}")
        elif callable(va) or isinstance(va, (int, str)) and not hasattr(va, "shape"):
            w.check(f"{pfx}/{k}", va is vb or va == vb, f"{k}: {va!r} vs {vb!r}")
        else:
            try:
                w.equal(f"{pfx}/{k}", vb, va)
            except Exception as ex:  # noqa
                w.check(f"{pfx}/{k}", False, f"{k}: {type(ex).__name__}: {ex}")


def _mk_pytree(kind, R):
    def ob(w):
        obj = _build(w, kind, R)
        x = w.arr("x", "N", "D" if not kind.startswith("cond-") else ("Dy" if "identity" in kind else "Dx"))
        # lazy registration: constructing an object registers its class as a pytree node (checked BEFORE anything that could
        # register it by another route, e.g. __setstate__)
        import jax as _real_jax
        w.check("registered-on-construction", not _real_jax.tree_util.all_leaves([obj]),
                f"{type(obj).__name__} is not a registered pytree node after construction (jit / vmap / scan would reject it)")
        # __getstate__ / __setstate__ (copy, pickle): the state is the attribute dictionary, restored verbatim
        import copy
        _same_attrs(w, "getstate-setstate", obj, copy.copy(obj))            # REAL _getstate / _setstate
        if w.symbolic:
            from .. import shim as S
            flatten, unflatten, DC = _captured_pytree_funcs(type(obj))
            children, keys = flatten(obj)                                 # REAL lambda
            obj2 = unflatten(keys, children)                              # REAL lambda
            _same_attrs(w, "roundtrip", obj, obj2)
            names = keys[0] if (isinstance(keys, tuple) and len(keys) == 2 and isinstance(keys[0], tuple)) else keys
            bad = [k for k, c in zip(names, children) if not (c is None or isinstance(c, S.SymArr))]
            bad += [f"child #{n}" for n, c in enumerate(children) if n >= len(names) and not (c is None or isinstance(c, S.SymArr))]
            w.check("jit-safe/children-are-arrays", not bad, f"non-array pytree children (traced under jit/vmap/scan): {bad}")
        else:
            import jax
            leaves, td = jax.tree_util.tree_flatten(obj)
            obj2 = jax.tree_util.tree_unflatten(td, leaves)
            _same_attrs(w, "roundtrip", obj, obj2)
            try:
                if kind.startswith("cond-"):
                    if kind == "cond-nn":
                        u = w._last_u
                        r = jax.jit(lambda q, x, u: q.condition_on_x_u(x, u).mu)(obj, x, u)
                        ref = obj.condition_on_x_u(x, u).mu
                    else:
                        r = jax.jit(lambda q, x: q.condition_on_x(x).mu)(obj, x)
                        ref = obj.condition_on_x(x).mu
                else:
                    r = jax.jit(lambda q, x: q.evaluate_ln(x))(obj, x)
                    ref = obj.evaluate_ln(x)
                w.equal("jit-safe/children-are-arrays", r, ref)
            except Exception as ex:  # noqa
                w.check("jit-safe/children-are-arrays", False, f"jax.jit with the object as argument: {type(ex).__name__}: {str(ex).splitlines()[0][:200]}")
    return ob


def _mk_dict(kind, R):
    def ob(w):
        obj = _build(w, kind, R)
        d = obj.to_dict()                                                 # REAL
        obj2 = type(obj).from_dict(d)                                     # REAL
        x = w.arr("x", "N", "D")
        w.equal("evaluates-to-the-same-function", obj2.evaluate_ln(x), obj.evaluate_ln(x))
        for k in ("Lambda", "nu", "ln_beta"):
            w.equal(f"field/{k}", getattr(obj2, k), getattr(obj, k))
        w.check("same-class", type(obj2) is type(obj), f"{type(obj).__name__} -> {type(obj2).__name__}")
    return ob


def _mk_ctor_guards():
    """the dict-like constructor accepts only declared fields by keyword (an undeclared or positional argument would be
    silently dropped by unflatten otherwise)"""
    def ob(w):
        F = SP.mods()["factor"]
        L = w.symm("Lf", ["R"], "D")
        nu = w.arr("nf", "R", "D")
        w.raises("positional-arguments-refused", (ValueError, TypeError), lambda: F.ConjugateFactor(L, nu))
        w.raises("unknown-keyword-refused", (ValueError, TypeError), lambda: F.ConjugateFactor(Lambda=L, nu=nu, Sigma_typo=L))
        # one positional mapping (the dict-like form the registration's _from_tuple relies on) == the keyword form
        a, b = F.ConjugateFactor({"Lambda": L, "nu": nu}), F.ConjugateFactor(Lambda=L, nu=nu)
        _same_attrs(w, "mapping-form", a, b)
    return ob


_FRESH = r"""
import sys, os
sys.path.insert(0, os.environ.get("GTV_REPO", "/repo"))
import jax
jax.config.update("jax_enable_x64", True)
import jax.numpy as jnp
from gaussian_toolbox import factor, measure, pdf, conditional
assert os.path.realpath(factor.__file__).startswith(os.path.realpath(os.environ.get("GTV_REPO", "/repo"))), factor.__file__
L = 2.0 * jnp.eye(2)[None]
objs = [factor.ConjugateFactor(Lambda=L), factor.OneRankFactor(v=jnp.ones((1, 2))), factor.LinearFactor(nu=jnp.ones((1, 2))),
        factor.ConstantFactor(ln_beta=jnp.zeros(1), num_dim=2), measure.GaussianMeasure(Lambda=L), measure.GaussianDiagMeasure(Lambda=L),
        pdf.GaussianPDF(Sigma=L, mu=jnp.zeros((1, 2))), pdf.GaussianDiagPDF(Sigma=L, mu=jnp.zeros((1, 2))),
        conditional.ConditionalGaussianPDF(M=jnp.ones((1, 2, 2)), Sigma=L), conditional.ConditionalIdentityGaussianPDF(Sigma=L)]
bad = []
for o in objs:
    if jax.tree_util.all_leaves([o]):
        bad.append(type(o).__name__ + ": not a registered pytree node after construction")
        continue
    try:
        jax.jit(lambda q: q.Lambda)(o)
    except Exception as ex:
        bad.append(type(o).__name__ + ": jit rejects the object: " + type(ex).__name__)
print("BAD:" + "; ".join(bad) if bad else "OK")
"""


def _mk_fresh_process():
    """lazy registration observed in a FRESH interpreter (inside a long-lived checking process an earlier obligation may
    already have registered a class by another route): construct one object per class, nothing else, then hand it to jit"""
    def ob(w):
        import os
        import subprocess
        p = subprocess.run(["/venv/bin/python", "-W", "ignore", "-c", _FRESH], capture_output=True, text=True, timeout=600,
                           env=dict(os.environ, JAX_PLATFORMS="cpu"))
        out = (p.stdout.strip().splitlines() or [""])[-1]
        w.check("registered-on-construction/fresh-process", p.returncode == 0 and out == "OK", (out + " " + p.stderr[-300:]).strip())
    return ob


def _register():
    REG.ob("lazy-registration/fresh-process", sorts=[], funcs=["utils.dataclass._Dataclass.__call__._init",
           "utils.dataclass.register_dataclass_type_with_jax_tree_util"], numeric=False)(_mk_fresh_process())
    REG.ob("constructor-guards", sorts=["R", "D"], funcs=["utils.dataclass.mappable_dataclass.new_init"])(_mk_ctor_guards())
    for kind in KINDS:
        for R in ("R", 1):
            if kind == "cond-nn" and R != 1:
                continue
            if kind.endswith("+updated") and R == 1:
                continue
            sorts = (["R"] if R != 1 else []) + (["Rn"] if kind.endswith("+updated") else []) + ["N"] + (["D"] if not kind.startswith("cond-") else (["Dy"] if "identity" in kind else ["Dx", "Dy"])) + (["Du"] if kind == "cond-nn" else [])
            REG.ob(f"pytree/{kind}/R={R}", sorts=sorts,
                   funcs=["utils.dataclass.register_dataclass_type_with_jax_tree_util", "utils.dataclass.mappable_dataclass.new_init",
                          "utils.dataclass._Dataclass.__call__", "utils.dataclass._Dataclass.__call__._getstate",
                          "utils.dataclass._Dataclass.__call__._setstate"] + (["pdf.GaussianDiagPDF.update" if kind.startswith("diag") else "pdf.GaussianPDF.update"] if kind.endswith("+updated") else []),
                   axioms=["jax.tree_util calls flatten_func / unflatten_func exactly as registered"] +
                          (["scatter with duplicate indices: one winner per component, the same for every field"] if kind.endswith("+updated") else []))(_mk_pytree(kind, R))
    for kind in ("general", "rank-one", "linear", "constant", "measure", "diag-measure", "pdf", "diag-pdf"):
        for R in ("R", 1):
            REG.ob(f"to_dict-from_dict/{kind}/R={R}", sorts=(["R"] if R != 1 else []) + ["N", "D"],
                   funcs=["factor.ConjugateFactor.to_dict", "factor.ConjugateFactor.from_dict", "factor.OneRankFactor.to_dict",
                          "factor.LinearFactor.to_dict", "factor.ConstantFactor.to_dict", "pdf.GaussianPDF.to_dict"])(_mk_dict(kind, R))


_register()
