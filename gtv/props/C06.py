"""C06: conditioning on coordinates satisfies p(x_a | x_b) p(x_b) = p(x) (DESIGN §6-C06).
The coordinate set is split by ARBITRARY disjoint injections a: Da -> D, b: Db -> D covering D (any order)."""
from ..runner import Registry
from .. import spec as SP
from .. import lemmas as LM
from .wf import wf_conditional, wf_measure
from .C05 import sub

REG = Registry("C06")


def _mk(R, explicit, diag):
    def ob(w):
        xp = w.xp
        # a = free coordinates (rows of the conditional), b = coordinates conditioned on
        sb, sa = w.partition("D", [("sb", "Db"), ("sa", "Da")], ascending=() if explicit else ("sa",))
        p, par = SP.gen_pdf(w, "p", R, "D", diag=diag)
        L_aa, L_ab = sub(xp, par["L"], sa, sa), sub(xp, par["L"], sa, sb)
        L_bb = sub(xp, par["L"], sb, sb)
        S_bb = sub(xp, par["S"], sb, sb)
        from .common import snapshot as _snap
        sp_ = _snap(p)
        if explicit:
            cond = p.condition_on_explicit(sb, sa)                      # REAL
        else:
            cond = p.condition_on(sb)                                    # REAL: rows follow setxor1d (ascending complement)
        Linv_aa = w.inv(L_aa)
        M_s = -xp.einsum("rij,rjk->rik", Linv_aa, L_ab)
        mu_a, mu_b = sub(xp, par["mu"], sa), sub(xp, par["mu"], sb)
        w.equal("value/M", cond.M, M_s)
        w.equal("value/b", cond.b, mu_a - xp.einsum("rij,rj->ri", M_s, mu_b))
        w.equal("value/Lambda", cond.Lambda, L_aa)
        wf_conditional(w, "result", cond)
        if diag:
            return
        # ---- product rule: p(x_a | x_b) p(x_b) = p(x) at all points
        LM.principal_submatrix_logdet(w, S_bb, par["ld"], L_aa)
        schur = L_bb - xp.einsum("rji,rjk,rkl->ril", L_ab, Linv_aa, L_ab)
        w.have_inverse(S_bb, schur, "Schur complement (inverse of a principal submatrix)")
        x = w.arr("x", "N", "D")
        xa, xb = x[:, sa], x[:, sb]
        from .common import params_unchanged
        params_unchanged(w, "frame/operand-unchanged", p, sp_, ("Sigma", "mu", "Lambda", "nu", "ln_beta", "ln_det_Sigma", "lnZ"))
        marg = p.get_marginal(sb)                                        # REAL
        lhs1 = cond.condition_on_x(xb).evaluate_ln(xa, element_wise=False)   # REAL [(R*N), N]
        n = w.size("N")
        r = 1 if R == 1 else w.size(R)
        lhs1 = xp.reshape(lhs1, (r, n, n))
        lhs1 = xp.einsum("rnn->rn", lhs1)                               # pair point n of x_b with point n of x_a
        lhs = lhs1 + marg.evaluate_ln(xb)
        w.equal("product-rule/p(xa|xb)p(xb)=p(x)", lhs, p.evaluate_ln(x))
    return ob


def _register():
    for R in ("R", 1):
        for explicit in (False, True):
            for diag in (False, True):
                cls = "pdf.GaussianDiagPDF" if diag else "pdf.GaussianPDF"
                name = "condition_on_explicit" if explicit else "condition_on"
                REG.ob(f"{cls}.{name}/R={R}", sorts=(["R"] if R != 1 else []) + ["Da", "Db", "N"],
                       funcs=[f"pdf.GaussianPDF.{name}", "conditional.ConditionalGaussianPDF.__post_init__",
                              "conditional.ConditionalGaussianPDF.condition_on_x", "pdf.GaussianPDF.get_marginal"],
                       axioms=["jnp.setxor1d contract: ascending complement of the given index list"],
                       lemmas=["GtvLemmas.det_principal_submatrix", "Schur complement inverse"])(_mk(R, explicit, diag))


_register()
