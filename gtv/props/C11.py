"""C11: Bayesian updating is path independent (posterior and evidence) (DESIGN §6-C11).
Lemma layer over the real functions: (i) one-step lemma -- the three update routes give the same posterior and the
predictive density is the mass of prior x likelihood; (ii) two observations with individual (M_i, b_i, Sigma_i) in both
orders and as a product; telescoping evidence.  Arbitrary N and order follow by induction from (i) and from the
commutativity of adding natural parameters (GtvLemmas.natural_param_foldl_perm); T-step Kalman filtering is the
alternation of the C08 prediction contract with (i)."""
from ..runner import Registry
from .. import spec as SP
from .. import lemmas as LM
from .C08 import post_precision
from .C09 import woodbury_hint

REG = Registry("C11")
LEM = ["GtvLemmas.natural_param_foldl_perm", "GtvLemmas.det_add_mul_mul_transpose", "Matrix.add_mul_mul_inv_eq_sub (Woodbury)"]


def _one_step(kind):
    def ob(w):
        xp = w.xp
        Dy = "Dy"
        Dx = "Dy" if kind.startswith("identity") else "Dx"
        h = SP.gen_cond_handle(w, kind, "c", 1, Dy, Dx)
        prior, px = SP.gen_pdf(w, "x", 1, Dx)
        y = w.arr("y", 1, Dy)
        x = w.arr("x", "N", Dx)
        P = post_precision(w, h, px)
        Sy4, _ = LM.sylvester(w, h.par["S"], h.par["ld"], px["S"], px["ld"], h.par["M"], P)
        Pinv = w.inv(P)
        woodbury_hint(w, h, px, P, Pinv, Sy4)
        # (a) conditional transformation, then conditioning on the observed value
        post_a = h.call("affine_conditional_transformation", prior).condition_on_x(y)      # REAL
        # (c) prior x likelihood factor, normalised
        lik = h.call("set_y", y)                                                            # REAL
        prod = prior.multiply(lik, update_full=True)                                        # REAL
        post_c = prod.get_density()                                                         # REAL
        # (b) joint transformation, then coordinate conditioning on the y block
        joint = h.call("affine_joint_transformation", prior)                                # REAL
        dim_y = w.block_index([Dx, Dy], [1])
        post_b = joint.condition_on(dim_y).condition_on_x(y)                                # REAL
        # (c') the same route with multiply's default (update_full=False: the covariance of the product is computed lazily)
        post_c2 = prior.multiply(lik).get_density()                                         # REAL
        for nm, q in (("(b)joint+condition_on", post_b), ("(c)product+normalise", post_c), ("(c')product(default)+normalise", post_c2)):
            w.equal(f"posterior/{nm}=(a)/mu", q.mu, post_a.mu)
            w.equal(f"posterior/{nm}=(a)/Sigma", q.Sigma, post_a.Sigma)
            w.equal(f"posterior/{nm}=(a)/density", q.evaluate_ln(x), post_a.evaluate_ln(x))
        # evidence: ln ∫ prior x likelihood == predictive log-density ln p(y)
        p_y = h.call("affine_marginal_transformation", prior)                               # REAL
        w.equal("evidence/log_integral(prior*lik)=ln p(y)", prod.log_integral(), p_y.evaluate_ln(y)[:, 0])
    return ob


def _one_step_batched(kind):
    """the one-step lemma for a mixture-style prior with K components and Ny alternative observed values at once: the three
    routes give the same K*Ny posteriors in the same layout (component k*Ny + n)"""
    def ob(w):
        xp = w.xp
        Dy = "Dy"
        Dx = "Dy" if kind.startswith("identity") else "Dx"
        h = SP.gen_cond_handle(w, kind, "c", 1, Dy, Dx)
        prior, px = SP.gen_pdf(w, "x", "K", Dx)
        y = w.arr("y", "Ny", Dy)
        x = w.arr("x", "N", Dx)
        post_a = h.call("affine_conditional_transformation", prior).condition_on_x(y)      # REAL  [K*Ny]
        lik = h.call("set_y", y)                                                            # REAL  [Ny]
        post_c = prior.multiply(lik, update_full=True).get_density()                        # REAL  [K*Ny]
        joint = h.call("affine_joint_transformation", prior)                                # REAL  [K]
        post_b = joint.condition_on(w.block_index([Dx, Dy], [1])).condition_on_x(y)         # REAL  [K*Ny]
        for nm, q in (("(b)joint+condition_on", post_b), ("(c)product+normalise", post_c)):
            w.equal(f"posterior/{nm}=(a)/mu", q.mu, post_a.mu)
            w.equal(f"posterior/{nm}=(a)/Sigma", q.Sigma, post_a.Sigma)
            w.equal(f"posterior/{nm}=(a)/ln_det_Sigma", q.ln_det_Sigma, post_a.ln_det_Sigma)
            w.equal(f"posterior/{nm}=(a)/density", q.evaluate_ln(x), post_a.evaluate_ln(x))
    return ob


def _two_obs():
    def ob(w):
        xp = w.xp
        w.eager = True      # normalise intermediate einsum results (Inv[P]·P cancels early; keeps terms small)
        prior, px = SP.gen_pdf(w, "x", 1, "Dw")
        h1 = SP.gen_cond_handle(w, "full", "a", 1, "Dy1", "Dw")
        h2 = SP.gen_cond_handle(w, "full", "b", 1, "Dy2", "Dw")
        y1, y2 = w.arr("y1", 1, "Dy1"), w.arr("y2", 1, "Dy2")
        x = w.arr("x", "N", "Dw")

        def step(p, h, y):
            return h.call("affine_conditional_transformation", p).condition_on_x(y)
        p12 = step(step(prior, h1, y1), h2, y2)                                             # REAL, order 1,2
        p21 = step(step(prior, h2, y2), h1, y1)                                             # REAL, order 2,1
        f1, f2 = h1.call("set_y", y1), h2.call("set_y", y2)
        prod = prior.multiply(f1, update_full=True).multiply(f2, update_full=True)          # REAL
        pc = prod.get_density()
        # a Gaussian density is determined by (Lambda, nu) (its ln_beta is then fixed by normalisation, checked too)
        for fld in ("Lambda", "nu", "Sigma", "ln_det_Sigma", "ln_beta"):
            w.equal(f"order/{fld}(1,2)={fld}(2,1)", getattr(p12, fld), getattr(p21, fld))
            w.equal(f"product/{fld}", getattr(pc, fld), getattr(p12, fld))
    return ob


def _two_obs_evidence():
    def ob(w):
        xp = w.xp
        prior, px = SP.gen_pdf(w, "x", 1, "Dw")
        h1 = SP.gen_cond_handle(w, "full", "a", 1, "Dy1", "Dw")
        h2 = SP.gen_cond_handle(w, "full", "b", 1, "Dy2", "Dw")
        y1, y2 = w.arr("y1", 1, "Dy1"), w.arr("y2", 1, "Dy2")
        # hints for the first predictive density
        P1 = post_precision(w, h1, px)
        Sy1, _ = LM.sylvester(w, h1.par["S"], h1.par["ld"], px["S"], px["ld"], h1.par["M"], P1)
        P1inv = w.inv(P1)
        woodbury_hint(w, h1, px, P1, P1inv, Sy1)
        post1 = h1.call("affine_conditional_transformation", prior).condition_on_x(y1)     # REAL
        lp1 = h1.call("affine_marginal_transformation", prior).evaluate_ln(y1)[:, 0]       # ln p(y1)
        # hints for the second predictive density (prior := post1, whose covariance is Inv[P1])
        pp = dict(S=post1.Sigma, L=post1.Lambda, ld=post1.ln_det_Sigma, mu=post1.mu)
        P2 = post_precision(w, h2, pp)
        Sy2, _ = LM.sylvester(w, h2.par["S"], h2.par["ld"], pp["S"], pp["ld"], h2.par["M"], P2)
        P2inv = w.inv(P2)
        woodbury_hint(w, h2, pp, P2, P2inv, Sy2)
        lp2 = h2.call("affine_marginal_transformation", post1).evaluate_ln(y2)[:, 0]       # ln p(y2 | y1)
        f1, f2 = h1.call("set_y", y1), h2.call("set_y", y2)
        prod = prior.multiply(f1, update_full=True).multiply(f2, update_full=True)
        w.equal("evidence/log_integral(prior*lik1*lik2)=ln p(y1)+ln p(y2|y1)", prod.log_integral(), lp1 + lp2)
    return ob


def _batched_likelihood(kind):
    """route (c) with N observations held in ONE batched conditional: prior x prod_n likelihood_n, normalised, has natural
    parameters  Lambda_x + sum_n M_n' L_n M_n  and  nu_x + sum_n M_n' L_n (y_n - b_n)  (N symbolic); its log-integral is the
    log marginal likelihood"""
    def ob(w):
        xp = w.xp
        Dx = "Dy" if kind.startswith("identity") else "Dx"
        h = SP.gen_cond_handle(w, kind, "c", "N", "Dy", Dx)
        prior, px = SP.gen_pdf(w, "x", 1, Dx)
        Y = w.arr("Y", "N", "Dy")
        lik = h.call("set_y", Y).product()                                                  # REAL: one factor per observation, reduced
        prod = prior.multiply(lik, update_full=True)                                        # REAL
        post = prod.get_density()                                                           # REAL
        L = h.par["L"]
        if h.identity:
            Lsum = xp.sum(L, axis=0, keepdims=True)
            nusum = xp.einsum("nij,nj->i", L, Y)[None]
            quad = xp.einsum("ni,nij,nj->", Y, L, Y)
        else:
            yb = Y - h.par["b"]
            Lsum = xp.einsum("nji,njk,nkl->il", h.par["M"], L, h.par["M"])[None]
            nusum = xp.einsum("nji,njk,nk->i", h.par["M"], L, yb)[None]
            quad = xp.einsum("ni,nij,nj->", yb, L, yb)
        nux = xp.einsum("rij,rj->ri", px["L"], px["mu"])
        Lpost = px["L"] + Lsum
        w.equal("posterior/Lambda", post.Lambda, Lpost)
        w.equal("posterior/nu", post.nu, nux + nusum)
        w.equal("posterior/Sigma", post.Sigma, w.inv(Lpost))
        # evidence: ln ∫ prior(x) prod_n N(y_n; M_n x + b_n, S_n) dx  (G1)
        dx, dy = w.size(Dx), w.size("Dy")
        c_prior = -(0.5 * xp.einsum("ri,ri->r", px["mu"], nux) + 0.5 * dx * w.log2pi() + 0.5 * px["ld"])
        c_lik = -0.5 * quad - 0.5 * w.size("N") * dy * w.log2pi() - 0.5 * xp.sum(h.par["ld"], axis=0)
        nu_p = nux + nusum
        lnmass = (0.5 * xp.einsum("ri,rij,rj->r", nu_p, w.inv(Lpost), nu_p) + 0.5 * dx * w.log2pi() - 0.5 * w.logdet(Lpost)
                  + c_prior + c_lik)
        w.equal("evidence/log_integral(prior*prod_n lik_n)=ln p(y_1..y_N)", prod.log_integral(), lnmass)
    return ob


def _kalman_step():
    """one Kalman step: predict with p(x1|x0) (C08 contract), update with p(y1|x1) == conditioning the joint of (x1, y1)"""
    def ob(w):
        xp = w.xp
        p0, px0 = SP.gen_pdf(w, "x", 1, "Dz")
        trans = SP.gen_cond_handle(w, "full", "t", 1, "Dz1", "Dz")        # p(x1 | x0) = N(A x0 + b, Q)
        emis = SP.gen_cond_handle(w, "full", "e", 1, "Dy", "Dz1")         # p(y1 | x1) = N(C x1 + d, R)
        y = w.arr("y", 1, "Dy")
        x = w.arr("x", "N", "Dz1")
        pred = trans.call("affine_marginal_transformation", p0)             # REAL prediction
        filt = emis.call("affine_conditional_transformation", pred).condition_on_x(y)       # REAL update
        joint = emis.call("affine_joint_transformation", pred)             # REAL joint of (x1, y1)
        ref = joint.condition_on(w.block_index(["Dz1", "Dy"], [1])).condition_on_x(y)
        w.equal("filtered=joint-conditioned/mu", filt.mu, ref.mu)
        w.equal("filtered=joint-conditioned/Sigma", filt.Sigma, ref.Sigma)
        w.equal("filtered=joint-conditioned/density", filt.evaluate_ln(x), ref.evaluate_ln(x))
    return ob


def _register():
    F = ["conditional.ConditionalGaussianPDF.affine_conditional_transformation", "conditional.ConditionalGaussianPDF.condition_on_x",
         "conditional.ConditionalGaussianPDF.set_y", "conditional.ConditionalGaussianPDF.affine_joint_transformation",
         "conditional.ConditionalGaussianPDF.affine_marginal_transformation", "measure.GaussianMeasure.multiply",
         "measure.GaussianMeasure.get_density", "measure.GaussianMeasure.log_integral", "pdf.GaussianPDF.condition_on",
         "factor.ConjugateFactor._multiply_with_measure"]
    for kind in ("full", "identity", "nn"):
        order = {} if kind.startswith("identity") else {("Dx", "Dy"): True}
        REG.ob(f"one-step/{SP.COND_CLS[kind]}", sorts=["Dy", "N"] + ([] if kind.startswith("identity") else ["Dx"]) + (["Du"] if kind == "nn" else []),
               order=order, funcs=F, lemmas=LEM, axioms=["G1 Gaussian integral"])(_one_step(kind))
    for kind in ("full", "identity"):
        order = {} if kind.startswith("identity") else {("Dx", "Dy"): True}
        REG.ob(f"one-step-batched/{SP.COND_CLS[kind]}", sorts=["K", "Ny", "Dy", "N"] + ([] if kind.startswith("identity") else ["Dx"]),
               order=order, funcs=F, lemmas=LEM)(_one_step_batched(kind))
    for kind in ("full", "identity", "nn"):
        REG.ob(f"batched-likelihood/{SP.COND_CLS[kind]}", sorts=["N", "Dy"] + ([] if kind.startswith("identity") else ["Dx"]) + (["Du"] if kind == "nn" else []),
               funcs=F + ["factor.ConjugateFactor.product"], lemmas=LEM, axioms=["G1 Gaussian integral"])(_batched_likelihood(kind))
    REG.ob("two-observations/order-and-product", sorts=["Dw", "Dy1", "Dy2", "N"], funcs=F, lemmas=LEM)(_two_obs())
    REG.ob("two-observations/evidence-telescopes", sorts=["Dw", "Dy1", "Dy2"], funcs=F, lemmas=LEM, axioms=["G1 Gaussian integral"])(_two_obs_evidence())
    REG.ob("kalman/one-step", sorts=["Dz", "Dz1", "Dy", "N"], order={("Dz1", "Dy"): True}, funcs=F, lemmas=LEM)(_kalman_step())


_register()


from . import condctor as _cc  # noqa: E402
REG.include(_cc.REG, prefix="ctor")
