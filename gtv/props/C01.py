"""C01: multiplying a measure by a conjugate factor is pointwise multiplication (DESIGN §6-C01)."""
from ..runner import Registry
from .common import gen_factor, view_lnf, snapshot, unchanged, FACTOR_CLS, fresh_result

REG = Registry("C01")

U_KINDS = ["measure", "measure+cache", "diag-measure", "diag-measure+cache", "pdf"]
F_KINDS = ["general", "rank-one", "linear", "constant", "measure", "diag-measure", "pdf"]


def _funcs(ukind, fkind, op):
    u_cls = FACTOR_CLS[ukind.replace("+cache", "")]
    f_cls = FACTOR_CLS[fkind]
    base = {"general": "factor.ConjugateFactor", "rank-one": "factor.OneRankFactor", "linear": "factor.LinearFactor",
            "constant": "factor.ConstantFactor"}.get(fkind, "factor.ConjugateFactor")
    fs = [f"{u_cls}.__post_init__", f"{f_cls}.__post_init__", "factor.ConjugateFactor.evaluate_ln", "factor.ConjugateFactor.evaluate",
          "factor.ConjugateFactor.__call__",
          "measure.GaussianMeasure.__post_init__"]
    if op in ("multiply", "mul"):
        fs += ["measure.GaussianMeasure.multiply", f"{base}._multiply_with_measure"]
        if op == "mul":
            fs.append("measure.GaussianMeasure.__mul__")
    elif op == "hadamard":
        fs += ["measure.GaussianMeasure.hadamard", f"{base}._hadamard_with_measure"]
    if fkind == "rank-one":
        fs.append("factor.OneRankFactor._get_Lambda")
    return fs


def _mk_binary(ukind, fkind, op, R1, R2, update_full):
    def ob(w):
        xp = w.xp
        u, uv = gen_factor(w, ukind, "u", R1, "D")
        f, fv = gen_factor(w, fkind, "f", R2, "D")
        x = w.arr("x", "N", "D")
        su, sf = snapshot(u), snapshot(f)
        if op == "multiply":
            res = u.multiply(f, update_full=update_full)        # REAL
        elif op == "mul":
            res = u * f                                          # REAL
        else:
            res = u.hadamard(f, update_full=update_full)        # REAL
        val = res.evaluate_ln(x)                                 # REAL [R, N]
        lu, lf = view_lnf(w, uv, x, R1), view_lnf(w, fv, x, R2)
        if op in ("multiply", "mul"):
            spec = (lu[:, None, :] + lf[None, :, :])
            r1 = 1 if R1 == 1 else w.size(R1)
            r2 = 1 if R2 == 1 else w.size(R2)
            spec = xp.reshape(spec, (r1 * r2, w.size("N")))      # documented layout: component i*R2+j
        else:
            spec = lu + lf
        w.equal("value", val, spec)
        w.equal("value/exp", res.evaluate(x), xp.exp(spec))
        w.equal("value/__call__", res(x), xp.exp(spec))
        ok, why = unchanged(u, su)
        w.check("frame/measure-unchanged", ok, why)
        ok, why = unchanged(f, sf)
        w.check("frame/factor-unchanged", ok, why)
        fresh_result(w, "frame/result-is-a-new-object", res, u, f)
    return ob


def _mk_product(kind, R):
    def ob(w):
        xp = w.xp
        u, uv = gen_factor(w, kind, "u", R, "D")
        x = w.arr("x", "N", "D")
        su = snapshot(u)
        res = u.product()                                        # REAL
        val = res.evaluate_ln(x)
        w.equal("value", val, xp.sum(view_lnf(w, uv, x, R), axis=0, keepdims=True))
        ok, why = unchanged(u, su)
        w.check("frame/operand-unchanged", ok, why)
        fresh_result(w, "frame/result-is-a-new-object", res, u)
        if hasattr(res, "normalize") and kind != "pdf":
            # history: an in-place call on the product must not reach the operand
            res.normalize()                                          # REAL (in place)
            ok, why = unchanged(u, su)
            w.check("frame/operand-unchanged-after-normalising-the-product", ok, why)
            w.equal("frame/operand-still-evaluates-to-u", u.evaluate_ln(x), view_lnf(w, uv, x, R))
    return ob


def _mk_defaults(kind, R):
    """documented defaults of the constructors (omitted nu / ln_beta are zero, omitted g is one): the function the object
    denotes, and its product with a measure, are the ones of the explicit arguments"""
    def ob(w):
        from .. import spec as SP
        xp = w.xp
        F, Mm = SP.mods()["factor"], SP.mods()["measure"]
        B = SP.batch(R)
        x = w.arr("x", "N", "D")
        if kind == "general":
            L = w.symm("Lf", B, "D")
            f = F.ConjugateFactor(Lambda=L)                               # REAL
            view = dict(L=L, nu=None, lb=0.0 * L[:, 0, 0])
        elif kind == "rank-one":
            v = w.arr("vf", *B, "D")
            f = F.OneRankFactor(v=v)                                       # REAL
            w.raises("v-missing-refused", (AttributeError, TypeError), lambda: F.OneRankFactor(v=None, g=w.pos("gf", *B)))
            view = dict(L=xp.einsum("ri,rj->rij", v, v), nu=None, lb=0.0 * v[:, 0])
        elif kind == "linear":
            nu = w.arr("nf", *B, "D")
            f = F.LinearFactor(nu=nu)                                      # REAL
            view = dict(L=None, nu=nu, lb=0.0 * nu[:, 0])
        elif kind == "measure":
            g = w.spd("f", B, "D")
            f = Mm.GaussianMeasure(Lambda=g["L"])                         # REAL
            view = dict(L=g["L"], nu=None, lb=0.0 * g["ld"])
        else:
            g = w.diag_spd("f", B, "D")
            f = Mm.GaussianDiagMeasure(Lambda=g["L"])                     # REAL
            view = dict(L=g["L"], nu=None, lb=0.0 * g["ld"])
        w.equal("value", f.evaluate_ln(x), view_lnf(w, view, x, R))
        u, uv = gen_factor(w, "measure", "u", "R1", "D")
        res = u.multiply(f)                                               # REAL
        spec = view_lnf(w, uv, x, "R1")[:, None, :] + view_lnf(w, view, x, R)[None, :, :]
        r2 = 1 if R == 1 else w.size(R)
        w.equal("product/value", res.evaluate_ln(x), xp.reshape(spec, (w.size("R1") * r2, w.size("N"))))
    return ob


def _mk_elementwise(kind):
    """evaluate_ln(x, element_wise=True): component r at point r (N == R), refused for N != R"""
    def ob(w):
        xp = w.xp
        f, fv = gen_factor(w, kind, "f", "R1", "D")
        x = w.arr("x", "R1", "D")
        val = f.evaluate_ln(x, element_wise=True)                         # REAL [R]
        full = view_lnf(w, fv, x, "R1")                                   # [R, R]
        w.equal("value=diagonal of the full table", val, xp.diagonal(full))
        w.equal("evaluate=exp", f.evaluate(x, element_wise=True), xp.exp(xp.diagonal(full)))
        xbad = w.arr("xb", "N", "D")
        w.raises("N!=R-refused", (ValueError,), lambda: f.evaluate_ln(xbad, element_wise=True))
    return ob


def _register():
    for kind in ("general", "rank-one", "linear", "constant", "measure", "pdf"):
        REG.ob(f"evaluate_ln-element_wise/{kind}", sorts=["R1", "N", "D"],
               funcs=["factor.ConjugateFactor.evaluate_ln", "factor.ConjugateFactor.evaluate"])(_mk_elementwise(kind))
    for kind in ("general", "rank-one", "linear", "measure", "diag-measure"):
        for R in ("R2", 1):
            REG.ob(f"ctor-defaults/{kind}/R={R}", sorts=["R1"] + (["R2"] if R != 1 else []) + ["D", "N"],
                   funcs=[f"{FACTOR_CLS[kind]}.__post_init__", "factor.ConjugateFactor.evaluate_ln"] + _funcs("measure", kind, "multiply")[4:])(
                _mk_defaults(kind, R))
    RC_MUL = [("R1", "R2"), (1, "R2"), ("R1", 1), (1, 1)]
    RC_HAD = [("R1", "R1"), (1, "R2"), ("R1", 1), (1, 1)]
    for ukind in U_KINDS:
        for fkind in F_KINDS:
            for op in ("multiply", "mul", "hadamard"):
                for (R1, R2) in (RC_HAD if op == "hadamard" else RC_MUL):
                    for uf in ((False,) if op == "mul" else (False, True)):
                        quick = (ukind in ("measure", "measure+cache") and (R1, R2) in (("R1", "R2"), ("R1", "R1"), (1, "R2"))) \
                            or (ukind in ("diag-measure+cache", "pdf") and fkind in ("general", "rank-one") and R1 != 1 and R2 != 1 and uf)
                        if op == "mul" and not (R1 != 1 and R2 != 1):
                            quick = False
                        sorts = sorted({s for s in (R1, R2) if s != 1}) + ["D", "N"]
                        oid = f"{op}/{ukind}*{fkind}/R=({R1},{R2})/update_full={uf}"
                        REG.ob(oid, sorts=sorts, funcs=_funcs(ukind, fkind, op), tier="quick" if quick else "thorough")(
                            _mk_binary(ukind, fkind, op, R1, R2, uf))
    for kind in ["general", "rank-one", "linear", "constant", "measure", "measure+cache", "diag-measure",
                 "diag-measure+cache", "pdf"]:
        for R in ("R1", 1):
            cls = FACTOR_CLS[kind.replace("+cache", "")]
            prod_owner = "measure.GaussianDiagMeasure" if kind.startswith("diag") else (
                "measure.GaussianMeasure" if kind in ("measure", "measure+cache", "pdf") else "factor.ConjugateFactor")
            REG.ob(f"product/{kind}/R={R}", sorts=(["R1"] if R != 1 else []) + ["D", "N"],
                   funcs=[f"{prod_owner}.product", f"{cls}.__post_init__", "factor.ConjugateFactor.evaluate_ln"])(
                _mk_product(kind, R))


_register()
