"""C02: reported total mass equals the true integral; densities integrate to one (DESIGN §6-C02).
By axiom G1 the integral of exp(-x'Λx/2 + ν'x + lnβ) over R^D is exp(lnmass(Λ, ν, lnβ)); a density 'integrates to one'
iff it is well formed with ln_beta = -lnZ (wf_pdf).  Density-returning APIs of other modules are included through
their `*/wf/*` clauses."""
from ..runner import Registry
from .. import spec as SP
from .common import gen_factor, gen_measure, view_lnf, pdf_view
from .wf import wf_measure

REG = Registry("C02")
G1 = ["G1 Gaussian integral"]


def _mk_mass(kind, R, order):
    def ob(w):
        xp = w.xp
        u, uv = gen_factor(w, kind, "u", R, "D")
        lnmass = SP.lnmass(w, uv["S"], uv["nu"], uv["lb"], -uv["ld"], w.size("D"))
        for n, q in enumerate(order):
            if q == "log_integral":
                w.equal(f"step{n}/log_integral", u.log_integral(), lnmass)
            elif q == "log_integral_light":
                w.equal(f"step{n}/log_integral_light", u.log_integral_light(), lnmass)
            elif q == "integral":
                w.equal(f"step{n}/integral", u.integral(), xp.exp(lnmass))
            elif q == "integral_light":
                w.equal(f"step{n}/integral_light", u.integral_light(), xp.exp(lnmass))
            elif q == "integrate1":
                w.equal(f"step{n}/integrate('1')", u.integrate("1"), xp.exp(lnmass))
    return ob


def _mk_ctor(ctor, R, diag):
    def ob(w):
        xp = w.xp
        p, par = SP.gen_pdf(w, "p", R, "D", ctor=ctor, diag=diag)           # REAL constructor
        wf_measure(w, "ctor", p, is_pdf=True)
        v = pdf_view(w, par, "D")
        x = w.arr("x", "N", "D")
        # the function it evaluates to is N(x; mu, Sigma)
        r = x[None] - par["mu"][:, None]
        lnN = -0.5 * xp.einsum("rni,rij,rnj->rn", r, par["L"], r) - 0.5 * w.size("D") * w.log2pi() - 0.5 * par["ld"][:, None]
        w.equal("evaluate_ln=lnN", p.evaluate_ln(x), lnN)
        w.equal("mass=1", p.log_integral(), 0.0 * par["ld"])
        w.equal("Sigma-kept", p.Sigma, par["S"])
        w.equal("mu-kept", p.mu, par["mu"])
        w.holds("is_normalized", p.is_normalized())                          # REAL
    return ob


def _mk_get_density(kind, R):
    def ob(w):
        xp = w.xp
        u, uv = gen_factor(w, kind, "u", R, "D")
        x = w.arr("x", "N", "D")
        lnmass = SP.lnmass(w, uv["S"], uv["nu"], uv["lb"], -uv["ld"], w.size("D"))
        from .common import fresh_result, params_unchanged, snapshot as _snap
        su_ = _snap(u)
        d = u.get_density()                                                  # REAL
        fresh_result(w, "frame/result-is-a-new-object", d, u)
        params_unchanged(w, "frame/operand-unchanged", u, su_)
        wf_measure(w, "density", d, is_pdf=True)
        w.equal("value", d.evaluate_ln(x), view_lnf(w, uv, x, R) - lnmass[:, None])
        w.equal("density-mass=1", d.log_integral(), 0.0 * lnmass)
    return ob


def _mk_normalize(kind, R):
    def ob(w):
        u, uv = gen_factor(w, kind, "u", R, "D")
        x = w.arr("x", "N", "D")
        lnmass = SP.lnmass(w, uv["S"], uv["nu"], uv["lb"], -uv["ld"], w.size("D"))
        before = view_lnf(w, uv, x, R)
        u.normalize()                                                        # REAL (in place)
        w.equal("value", u.evaluate_ln(x), before - lnmass[:, None])
        w.equal("mass=1", u.log_integral(), 0.0 * lnmass)
        w.holds("is_normalized", u.is_normalized())                          # REAL: lnZ == -ln_beta, exactly
    return ob


def _mk_invert_matrix_body():
    """body of utils.linalg.invert_matrix against its contract, with the assumed contracts of cho_factor / cho_solve and the
    Lean lemma det_cholesky (ln det A = 2 sum ln C_ii).  The symbolic run uses a single matrix (R = 1: `len(A)` of a
    symbolic batch is not representable in Python); the numeric world runs batches."""
    def ob(w):
        xp = w.xp
        LA = SP.mods()["utils.linalg"]
        R = 1 if w.symbolic else "R"
        g = w.spd("a", SP.batch(R), "D")
        if w.symbolic:
            from .. import matrices as MX, shim as S
            chol = MX.cholesky_contract(g["S"])
            diag = chol.diagonal(axis1=-1, axis2=-2)
        A_inv, ln_det = LA.invert_matrix(g["S"])                          # REAL body
        w.equal("A_inv*A=I", xp.einsum("rij,rjk->rik", A_inv, g["S"]), xp.eye(w.size("D"))[None], broadcast=True)
        if w.symbolic:
            # det_cholesky: ln det A = 2 * sum_i ln C_ii for the triangular factor C of A
            w.equal("ln_det=2*sum(log(diag(chol)))", ln_det, 2.0 * xp.sum(xp.log(diag), axis=1))
        else:
            w.equal("ln_det=LogDet[A]", ln_det, g["ld"])
    return ob


def _register():
    REG.ob("utils.linalg.invert_matrix/body", sorts=["D", "R"], funcs=["utils.linalg.invert_matrix"],
           axioms=["cho_factor: triangular C with C'C = A", "cho_solve((C, lower), B) = A^-1 B"], lemmas=["GtvLemmas.det_cholesky"],
           note="symbolic run at R = 1 (len() of a symbolic batch is not representable); numeric world runs batches")(_mk_invert_matrix_body())
    MF = ["measure.GaussianMeasure.log_integral", "measure.GaussianMeasure.log_integral_light", "measure.GaussianMeasure.integral",
          "measure.GaussianMeasure.integral_light", "measure.GaussianMeasure.integrate", "measure.GaussianMeasure.compute_lnZ",
          "measure.GaussianMeasure.compute_mu", "measure.GaussianMeasure.invert_lambda", "measure.GaussianDiagMeasure.invert_lambda",
          "measure.GaussianMeasure._prepare_integration", "utils.linalg.invert_diagonal"]
    orders = [("log_integral_light", "log_integral", "integral", "integral_light", "integrate1"),
              ("integrate1", "integral_light", "log_integral"), ("integral", "log_integral_light")]
    for kind in ("measure", "measure+cache", "diag-measure", "diag-measure+cache", "pdf"):
        for R in ("R", 1):
            for n, order in enumerate(orders):
                REG.ob(f"mass/{kind}/R={R}/order{n}", sorts=(["R"] if R != 1 else []) + ["D"], funcs=MF, axioms=G1,
                       tier="quick" if n == 0 or R != 1 else "thorough")(_mk_mass(kind, R, order))
            REG.ob(f"get_density/{kind}/R={R}", sorts=(["R"] if R != 1 else []) + ["D", "N"],
                   funcs=["measure.GaussianMeasure.get_density", "pdf.GaussianPDF.__post_init__"] + MF, axioms=G1)(_mk_get_density(kind, R))
            if kind != "pdf":
                REG.ob(f"normalize/{kind}/R={R}", sorts=(["R"] if R != 1 else []) + ["D", "N"],
                       funcs=["measure.GaussianMeasure.normalize"] + MF, axioms=G1)(_mk_normalize(kind, R))
    for ctor in ("Sigma", "Sigma+Lambda", "Sigma+Lambda+ld"):
        for R in ("R", 1):
            for diag in (False, True):
                cls = "pdf.GaussianDiagPDF" if diag else "pdf.GaussianPDF"
                REG.ob(f"ctor/{cls}/{ctor}/R={R}", sorts=(["R"] if R != 1 else []) + ["D", "N"],
                       funcs=[f"{cls}.__post_init__", "measure.GaussianMeasure.normalize", "factor.ConjugateFactor.evaluate_ln"] + MF,
                       axioms=G1, lemmas=["GtvLemmas.det_diagonal"] if diag else [])(_mk_ctor(ctor, R, diag))


_register()


# results of the transformations are objects too: their invariant clauses belong to this property as well
from . import C05 as _C05, C06 as _C06, C07 as _C07, C08 as _C08, C09 as _C09, C12 as _C12  # noqa: E402
for _m in (_C05, _C06, _C07, _C08, _C09, _C12):
    REG.include(_m.REG, only_clauses=["*/wf/*", "*/batch/*"], exclude="*refusal*")
