"""GTV shim: symbolic stand-in for jax.numpy / jax.scipy / lax (DESIGN §2.1-2.2).

Arrays carry index-notation expressions over axes with *symbolic* sizes.  Axis kinds:
  Axis(comps)  - row-major product of atomic index variables; () = unit axis (size 1)
  DSum(parts)  - concatenation (direct sum) of simple axes; the array is stored block-wise.
Every operation not modelled raises ShimUnsupported (checker failure, exit 3); size mismatches that real JAX
would reject (or silently mis-lay-out) for generic distinct sizes raise ShapeError (a failed non-raise clause).
"""
from fractions import Fraction
import builtins as _b
import itertools
from . import kernel as K
from .kernel import IV, IC


class ShimUnsupported(Exception):
    pass


class ShapeError(TypeError):
    """the real code would raise / mis-lay-out for generic (pairwise distinct, >=2) sizes"""
    pass


class Undecided(Exception):
    """a Python-level predicate on dimensions is not fixed by the configuration"""
    pass


# ------------------------------------------------------------------ world (per-extraction state)
class World:
    def __init__(self, order=None):
        self.ctx = K.Ctx()
        self.order = dict(order or {})   # (repr(a), repr(b)) -> True if a > b
        self.decisions = []              # logged dimension predicates
        self.ops = {}                    # primitive usage counter
        self.inv_registry = {}           # canonical form -> (inv name, ld name)
        self.inv_log = []                # records of invert calls
        self.logdet_table = []           # (matrix SymArr, value SymArr, justification)
        self.partners = {}               # atom name -> (partner atom name, logdet atom name, sign)
        self.assumed_pd = []
        self.counter = itertools.count()
        self.map_sort = {}               # index-map name -> sort of the axis it indexes into

    def count(self, op):
        self.ops[op] = self.ops.get(op, 0) + 1

    def decide(self, text, value):
        self.decisions.append((text, value))
        return value


W = None  # current world


def set_world(w):
    global W
    W = w
    return w


# ------------------------------------------------------------------ Dim
class Dim:
    """size polynomial: ordered list of (coef:int, sorts:tuple) terms; sorts keep insertion order for layouts"""
    __slots__ = ("terms",)

    def __init__(self, terms):
        # merge equal monomials (as multisets), keep first-appearance order
        acc = []
        for c, s in terms:
            if c == 0:
                continue
            key = tuple(sorted(s))
            for t in acc:
                if t[2] == key:
                    t[0] += c
                    break
            else:
                acc.append([c, tuple(s), key])
        self.terms = tuple((c, s) for c, s, _ in acc if c != 0)

    @staticmethod
    def of(sort):
        return Dim([(1, (sort,))])

    def _key(self):
        return tuple(sorted((tuple(sorted(s)), c) for c, s in self.terms))

    def is_const(self):
        return _b.all(not s for c, s in self.terms)

    def const(self):
        return _b.sum(c for c, s in self.terms)

    def __int__(self):
        if self.is_const():
            return self.const()
        raise Undecided(f"int() of symbolic dimension {self}")

    __index__ = __int__

    def _coerce(self, o):
        if isinstance(o, Dim):
            return o
        if isinstance(o, bool):
            return None
        if isinstance(o, int):
            return Dim([(o, ())])
        return None

    def __mul__(self, o):
        if isinstance(o, (float, Fraction)):
            return _lift(self) * o
        o2 = self._coerce(o)
        if o2 is None:
            return NotImplemented
        return _dim_simpl(Dim([(c1 * c2, s1 + s2) for c1, s1 in self.terms for c2, s2 in o2.terms]))

    def __truediv__(self, o):
        return _lift(self) / o

    def __rtruediv__(self, o):
        return _lift(o) / _lift(self)

    __rmul__ = __mul__

    def __add__(self, o):
        if isinstance(o, (float, Fraction)):
            return _lift(self) + o
        o2 = self._coerce(o)
        if o2 is None:
            return NotImplemented
        return _dim_simpl(Dim(list(self.terms) + list(o2.terms)))

    def __radd__(self, o):
        o2 = self._coerce(o)
        if o2 is None:
            return NotImplemented
        return _dim_simpl(Dim(list(o2.terms) + list(self.terms)))

    def __sub__(self, o):
        o2 = self._coerce(o)
        if o2 is None:
            return NotImplemented
        return _dim_simpl(Dim(list(self.terms) + [(-c, s) for c, s in o2.terms]))

    def __eq__(self, o):
        o2 = self._coerce(o)
        if o2 is None:
            return False
        if self._key() == o2._key():
            return True
        return W.decide(f"{self} == {o2}", False) if W else False

    def __ne__(self, o):
        return not self.__eq__(o)

    def __hash__(self):
        return hash(self._key())

    def _cmp(self, o, op):
        o2 = self._coerce(o)
        if o2 is None:
            return NotImplemented
        if self._key() == o2._key():
            return op in ("<=", ">=")
        if self.is_const() and o2.is_const():
            a, b = self.const(), o2.const()
            return {"<": a < b, "<=": a <= b, ">": a > b, ">=": a >= b}[op]
        # generic sorts are >= 2 (size-1 is the Unit configuration)
        if o2.is_const() and o2.const() <= 1 and _b.all(c > 0 for c, s in self.terms):
            gt = True
            return W.decide(f"{self} {op} {o2}", {"<": False, "<=": False, ">": gt, ">=": True}[op])
        if self.is_const() and self.const() <= 1 and _b.all(c > 0 for c, s in o2.terms):
            return W.decide(f"{self} {op} {o2}", {"<": True, "<=": True, ">": False, ">=": False}[op])
        # generic sorts stand for sizes >= 2
        if o2.is_const() and o2.const() == 2 and _b.all(c > 0 for c, s in self.terms) and op in (">=", "<"):
            return W.decide(f"{self} {op} {o2}", op == ">=")
        if self.is_const() and self.const() == 2 and _b.all(c > 0 for c, s in o2.terms) and op in ("<=", ">"):
            return W.decide(f"{self} {op} {o2}", op == "<=")
        key = (repr(self), repr(o2))
        if W is not None and key in W.order:
            gt = W.order[key]
        elif W is not None and (key[1], key[0]) in W.order:
            gt = not W.order[(key[1], key[0])]   # a>b given as b>a False means a>=b ... treat sizes as distinct
        else:
            raise Undecided(f"dimension comparison {self} {op} {o2} not fixed by the configuration")
        res = {"<": not gt, "<=": not gt, ">": gt, ">=": gt}[op]
        return W.decide(f"{self} {op} {o2}", res)

    def __lt__(self, o):
        return self._cmp(o, "<")

    def __le__(self, o):
        return self._cmp(o, "<=")

    def __gt__(self, o):
        return self._cmp(o, ">")

    def __ge__(self, o):
        return self._cmp(o, ">=")

    def __repr__(self):
        if not self.terms:
            return "0"
        out = []
        for c, s in self.terms:
            body = "*".join(map(str, s))
            if not s:
                out.append(str(c))
            elif c == 1:
                out.append(body)
            else:
                out.append(f"{c}*{body}")
        return "+".join(out)

    def as_expr(self):
        return K.add(*[K.mul(K.num(c), *[K.dim(x) for x in s]) for c, s in self.terms])


def _dim_simpl(d):
    if d.is_const():
        return d.const()
    return d


def _as_dim(x):
    if isinstance(x, Dim):
        return x
    if isinstance(x, int):
        return Dim([(x, ())])
    raise ShimUnsupported(f"not a dimension: {x!r}")


# ------------------------------------------------------------------ axes
import numbers as _numbers
_numbers.Integral.register(Dim)      # a Dim stands for a Python int (a size); `isinstance(d, numbers.Number)` holds


class Axis:
    __slots__ = ("comps",)

    def __init__(self, comps=()):
        self.comps = tuple(comps)

    @property
    def unit(self):
        return not self.comps

    def size(self):
        if not self.comps:
            return 1
        return Dim([(1, tuple(c.sort for c in self.comps))])

    def sorts(self):
        return tuple(c.sort for c in self.comps)

    def fresh(self, m):
        new = tuple(IV(c.sort) for c in self.comps)
        for p, q in zip(self.comps, new):
            m[p] = q
        return Axis(new)

    def __repr__(self):
        return "1" if self.unit else "*".join(str(c.sort) for c in self.comps)


UNIT = Axis(())


class DSum:
    __slots__ = ("parts",)

    def __init__(self, parts):
        self.parts = list(parts)

    unit = False

    def size(self):
        t = 0
        for p in self.parts:
            t = t + p.size()
        return t

    def sorts(self):
        return tuple(p.sorts() for p in self.parts)

    def fresh(self, m):
        return DSum([p.fresh(m) for p in self.parts])

    def __repr__(self):
        return "(" + "⊕".join(repr(p) for p in self.parts) + ")"


def _axis_from_dim(d):
    """fresh axis for a size (int or Dim)"""
    if isinstance(d, int) and not isinstance(d, bool):
        if d == 1:
            return UNIT
        return Axis([IV(f"#{d}")])
    if isinstance(d, Dim):
        if d.is_const():
            return _axis_from_dim(d.const())
        parts = []
        for c, s in d.terms:
            if c < 0:
                raise ShimUnsupported(f"negative size {d}")
            for _ in range(c):
                if not s:
                    parts.append(UNIT)
                else:
                    parts.append(Axis([IV(x) for x in s]))
        if len(parts) == 1:
            return parts[0]
        return DSum(parts)
    raise ShimUnsupported(f"bad size {d!r}")


def _same_struct(a, b):
    if isinstance(a, DSum) != isinstance(b, DSum):
        return False
    return a.sorts() == b.sorts()


# ------------------------------------------------------------------ arrays
def _lift(x):
    if isinstance(x, SymArr):
        return x
    if isinstance(x, bool):
        raise ShimUnsupported("boolean in arithmetic")
    if isinstance(x, (int, float, Fraction)):
        return SymArr([], {(): K.num(Fraction(x))})
    if isinstance(x, Dim):
        return SymArr([], {(): x.as_expr()})
    if isinstance(x, IndexArr):
        raise ShimUnsupported("arithmetic on an index array")
    raise ShimUnsupported(f"cannot lift {type(x).__name__}")


class SymArr:
    __array_priority__ = 1000

    def __init__(self, axes, blocks):
        self.axes = list(axes)
        if not isinstance(blocks, dict):
            blocks = {(): blocks}
        self.blocks = blocks

    # -- structure helpers
    def dsum_positions(self):
        return [n for n, a in enumerate(self.axes) if isinstance(a, DSum)]

    def keys(self):
        ds = [self.axes[n] for n in self.dsum_positions()]
        return list(itertools.product(*[range(len(d.parts)) for d in ds]))

    def simple_axes(self, key):
        out = []
        it = iter(key)
        for a in self.axes:
            if isinstance(a, DSum):
                out.append(a.parts[next(it)])
            else:
                out.append(a)
        return out

    def block(self, key):
        e = self.blocks.get(key, "missing")
        if e is None or e == "missing":
            raise ShimUnsupported("use of an uninitialised (jnp.empty) or missing block")
        return e

    @property
    def expr(self):
        if self.dsum_positions():
            raise ShimUnsupported("expr of a block array")
        return self.block(())

    def fresh_copy(self):
        m = {}
        axes = [a.fresh(m) for a in self.axes]
        blocks = {k: (None if e is None else K.rename_bound(K.subst(e, m))) for k, e in self.blocks.items()}
        return SymArr(axes, blocks)

    @property
    def shape(self):
        return tuple(a.size() for a in self.axes)

    @property
    def ndim(self):
        return len(self.axes)

    @property
    def T(self):
        if self.ndim <= 1:
            return self
        return transpose(self)

    def __len__(self):
        s = self.shape[0]
        if isinstance(s, int):
            return s
        raise Undecided(f"len() of an array with symbolic leading size {s}")

    def __bool__(self):
        raise ShimUnsupported("Python branch on an array value (not trace-safe)")

    def __eq__(self, o):
        if o is None:
            return False          # jax: `arr == None` is Python False
        raise ShimUnsupported("array comparison == used as a Python value")

    def __ne__(self, o):
        if o is None:
            return True
        if isinstance(o, (int, float)) and o == 0:
            W.assumptions.add("a quantity tested with `!= 0` is non-zero (truncated mass Phi(beta)-Phi(alpha) > 0 for a < b)") if hasattr(W, "assumptions") else None
            return BoolConst(True, "non-zero by precondition")
        raise ShimUnsupported("array comparison != used as a Python value")

    __hash__ = None

    def __repr__(self):
        return f"SymArr{[repr(a) for a in self.axes]}"

    # -- elementwise with broadcasting
    def _bin(self, o, f, opname="binop"):
        W.count(opname)
        return _broadcast_op([self, o], lambda es: f(es[0], es[1]))

    def __add__(self, o):
        if o is None:
            raise TypeError("unsupported operand type(s) for +: 'Array' and 'NoneType'")
        return self._bin(o, lambda x, y: K.add(x, y), "add")

    def __radd__(self, o):
        return _lift(o).__add__(self)

    def __sub__(self, o):
        if o is None:
            raise TypeError("unsupported operand type(s) for -: 'Array' and 'NoneType'")
        return self._bin(o, lambda x, y: K.sub(x, y), "sub")

    def __rsub__(self, o):
        return _lift(o).__sub__(self)

    def __mul__(self, o):
        if o is None:
            raise TypeError("unsupported operand type(s) for *: 'Array' and 'NoneType'")
        return self._bin(o, lambda x, y: K.mul(x, y), "mul")

    def __rmul__(self, o):
        return _lift(o).__mul__(self)

    def __truediv__(self, o):
        return self._bin(o, lambda x, y: K.mul(x, K.powr(y, -1)), "div")

    def __rtruediv__(self, o):
        return _lift(o).__truediv__(self)

    def __neg__(self):
        return SymArr(self.axes, {k: (None if e is None else K.neg(e)) for k, e in self.blocks.items()})

    def __pos__(self):
        return self

    def __pow__(self, n):
        if isinstance(n, Stack):
            return Stack._binary(self, n, lambda a, k: a ** k)
        if isinstance(n, float) and n == int(n):
            n = int(n)
        if isinstance(n, float) and n == 0.5:
            return sqrt(self)
        if not isinstance(n, int):
            raise ShimUnsupported(f"power {n!r}")
        return SymArr(self.axes, {k: K.powr(self.block(k), n) for k in self.blocks})

    def __iadd__(self, o):
        return self + o

    def __isub__(self, o):
        return self - o

    def __imul__(self, o):
        return self * o

    def __matmul__(self, o):
        return matmul(self, o)

    # comparisons produce symbolic booleans (only usable in where / logical ops)
    def __lt__(self, o):
        return _compare(self, o, "lt")

    def __le__(self, o):
        # non-strict comparison used as a 0/1 value (same as jnp.less_equal) unless the configuration fixes its outcome
        if getattr(W, "compare_outcome", None) is None:
            return less_equal(self, o)
        return _compare(self, o, "le")

    def __gt__(self, o):
        return _compare(o, self, "lt")

    def __ge__(self, o):
        if getattr(W, "compare_outcome", None) is None:
            return greater_equal(self, o)
        return _compare(o, self, "le")

    def __and__(self, o):
        return logical_and(self, o)

    __rand__ = __and__

    # -- indexing
    def __getitem__(self, key):
        return _getitem(self, key)

    @property
    def at(self):
        return _At(self)

    def reshape(self, *shape):
        if len(shape) == 1 and isinstance(shape[0], (tuple, list)):
            shape = tuple(shape[0])
        return reshape(self, shape)

    def diagonal(self, offset=0, axis1=0, axis2=1):
        return diagonal(self, offset, axis1, axis2)

    def sum(self, axis=None, keepdims=False):
        return sum(self, axis=axis, keepdims=keepdims)

    def squeeze(self, axis=None):
        return squeeze(self, axis)

    def astype(self, dt):
        return self

    def transpose(self, *axes):
        if len(axes) == 1 and isinstance(axes[0], (tuple, list)):
            axes = tuple(axes[0])
        return transpose(self, axes or None)

    def swapaxes(self, a, b):
        return swapaxes(self, a, b)

    @property
    def dtype(self):
        return "float64"


def _broadcast_op(operands, f):
    """elementwise n-ary op with numpy broadcasting; f(list of exprs) -> expr"""
    ops = [_lift(o).fresh_copy() for o in operands]
    n = max(o.ndim for o in ops)
    padded = [[UNIT] * (n - o.ndim) + o.axes for o in ops]
    m = {}
    res_axes = []
    for pos in range(n):
        cur = None
        for axs in padded:
            a = axs[pos]
            if isinstance(a, Axis) and a.unit:
                continue
            if cur is None:
                cur = a
                continue
            if not _same_struct(cur, a):
                raise ShapeError(f"operands could not be broadcast together: axis sizes {cur} vs {a}")
            if isinstance(cur, DSum):
                for p, q in zip(cur.parts, a.parts):
                    for x, y in zip(p.comps, q.comps):
                        m[y] = x
            else:
                for x, y in zip(cur.comps, a.comps):
                    m[y] = x
        res_axes.append(cur if cur is not None else UNIT)
    res = SymArr(res_axes, {})
    dpos = res.dsum_positions()
    for key in res.keys():
        kmap = dict(zip(dpos, key))
        es = []
        for o, axs in zip(ops, padded):
            okey = tuple(kmap[pos] for pos in range(n) if isinstance(axs[pos], DSum))
            es.append(K.subst(o.block(okey), m))
        res.blocks[key] = f(es)
    return res


# ------------------------------------------------------------------ booleans (truncated-measure extension)
class BoolConst:
    """a comparison whose outcome is fixed for the whole batch by the configuration / preconditions"""

    def __init__(self, value, why=""):
        self.value = bool(value)
        self.why = why

    def __bool__(self):
        raise ShimUnsupported("Python branch on an array comparison (not trace-safe)")


def _has_inf(arr):
    for e in arr.blocks.values():
        if e is not None and "INF" in K.atoms_of(e):
            p = K.normalize(e, W.ctx)
            for (f, nb), c in p.items():
                if _b.any(x[0] == "A" and x[1] == "INF" for x in f):
                    return True
    return False


def isfinite(x):
    W.count("isfinite")
    x = _lift(x)
    return BoolConst(not _has_inf(x), "finite/infinite pattern of the limits is fixed by the configuration")


def _indicator(a, b, name="step"):
    """0/1-valued array  [a >= b]  as the function atom step(a - b)"""
    W.count("compare")
    d = _lift(a) - b
    W.ctx.idempotent_fn = getattr(W.ctx, "idempotent_fn", set()) | {"step"}
    return SymArr(d.axes, {k: K.fn("step", e) for k, e in d.blocks.items()})


def greater_equal(a, b):
    return _indicator(a, b)


def less_equal(a, b):
    return _indicator(b, a)


def _compare(a, b, kind):
    """strict comparison used as a value: its (batch-uniform) outcome must be fixed by the configuration"""
    out = getattr(W, "compare_outcome", None)
    if out is None:
        raise ShimUnsupported("strict array comparison as a value")
    return BoolConst(out, "outcome fixed by the configuration")


def logical_and(a, b):
    W.count("logical_and")
    if isinstance(a, BoolConst) and isinstance(b, BoolConst):
        return BoolConst(a.value and b.value)
    return _lift(a) * b


def logical_not(a):
    if isinstance(a, BoolConst):
        return BoolConst(not a.value)
    return 1.0 - _lift(a)


def all(x, axis=None):  # noqa: A001
    """jnp.all of a 0/1 array: only over unit axes (D = 1)"""
    W.count("all")
    if isinstance(x, BoolConst):
        return x
    if axis is None:
        raise ShimUnsupported("jnp.all without axis")
    ax = axis % x.ndim
    if not (isinstance(x.axes[ax], Axis) and x.axes[ax].unit):
        raise ShimUnsupported("jnp.all over a non-unit axis")
    return squeeze(x, ax)


def where(cond, a, b):
    W.count("where")
    if isinstance(cond, BoolConst):
        pick, other = (a, b) if cond.value else (b, a)
        return _broadcast_op([_lift(pick), _lift(other)], lambda es: es[0])
    if isinstance(cond, SymArr):
        return _broadcast_op([cond, _lift(a), _lift(b)], lambda es: K.add(K.mul(es[0], es[1]), K.mul(K.sub(K.ONE, es[0]), es[2])))
    raise ShimUnsupported("where with a non-symbolic condition")


def sign(x):
    raise ShimUnsupported("sign")


def maximum(a, b):
    """only the rectifier pattern maximum(h, 0) = h * [h >= 0]"""
    if isinstance(b, (int, float)) and b == 0:
        a = _lift(a)
        return a * _indicator(a, 0.0)
    raise ShimUnsupported("maximum")


# ------------------------------------------------------------------ index arrays
class IndexArr:
    """integer index array used by take / fancy indexing.
    kind 'map'   : arbitrary index map rho: new axis -> source axis (terms: one index term per source comp)
    kind 'range' : jnp.arange(lo, hi) over a DSum part structure (selects parts) or identity
    """

    def __init__(self, kind, axis=None, terms=None, size=None, lo=0, name=None, parts=None):
        self.kind = kind
        self.axis = axis      # Axis of the index array itself (new axis)
        self.terms = terms    # index terms (in the IVs of self.axis) per source comp
        self.size = size
        self.lo = lo
        self.name = name
        self.parts = parts    # for kind 'parts': list of part numbers of a DSum axis

    @property
    def shape(self):
        if self.kind == "map":
            return (self.axis.size(),)
        if self.kind == "parts":
            return (self.size,)
        return (self.size,)

    @property
    def ndim(self):
        return 1

    def fresh(self):
        if self.kind != "map":
            return self
        m = {}
        ax = self.axis.fresh(m)
        r = IndexArr("map", ax, [K.isub(t, m) for t in self.terms], name=self.name)
        r.zero = getattr(self, "zero", False)
        return r


def index_map(name, new_sort, n_src_comps=1):
    """arbitrary index map atom rho: new_sort -> source sort(s)"""
    v = IV(new_sort)
    if n_src_comps == 1:
        terms = [K.app(name, v)]
    else:
        terms = [K.app(f"{name}.{k}", v) for k in range(n_src_comps)]
    return IndexArr("map", Axis([v]), terms, name=name)


def arange(a, b=None, dtype=None):
    W.count("arange")
    if b is None:
        lo, hi = 0, a
    else:
        lo, hi = a, b
    if isinstance(lo, int) and isinstance(hi, int) and not isinstance(hi, bool) and getattr(W, "literal_arange", False):
        return Stack(list(range(lo, hi)))
    return IndexArr("range", size=hi - lo if not (isinstance(lo, int) and lo == 0) else hi, lo=lo)


# ------------------------------------------------------------------ getitem / at
def _getitem(arr, key):
    W.count("getitem")
    if not isinstance(key, tuple):
        key = (key,)
    if _b.any(k is Ellipsis for k in key):
        n_spec = len([k for k in key if k is not None and k is not Ellipsis])
        p = [i for i, k in enumerate(key) if k is Ellipsis][0]
        key = key[:p] + (slice(None),) * (arr.ndim - n_spec) + key[p + 1:]
    n_spec = len([k for k in key if k is not None])
    if n_spec > arr.ndim:
        raise ShapeError("too many indices for array")
    cur = arr.fresh_copy()
    pos = 0
    for k in key:
        if k is None:
            axes = list(cur.axes)
            axes.insert(pos, UNIT)
            cur = SymArr(axes, cur.blocks)
            pos += 1
            continue
        cur, marker = _index_axis(cur, pos, k)
        if marker != "dropped":
            pos += 1
    return cur


def _slice_bounds(sl, axis):
    """resolve a slice on an axis into a list of selected parts (for DSum) or 'all'"""
    if sl.step not in (None, 1):
        raise ShimUnsupported("strided slice")
    lo, hi = sl.start, sl.stop
    if lo in (None, 0) and hi is None:
        return "all"
    size = axis.size()
    if isinstance(axis, DSum):
        # cumulative part sizes
        cum = [0]
        for p in axis.parts:
            cum.append(cum[-1] + p.size())
        def find(v):
            for n, c in enumerate(cum):
                if (isinstance(c, int) and isinstance(v, int) and c == v) or (isinstance(c, Dim) and isinstance(v, Dim) and c._key() == v._key()):
                    return n
            return None
        a = 0 if lo in (None, 0) else find(lo)
        b = len(axis.parts) if hi is None else find(hi)
        if a is None or b is None:
            raise ShimUnsupported(f"slice {lo}:{hi} does not align with the parts of {axis}")
        return list(range(a, b))
    # simple axis
    def same(v, w):
        if isinstance(v, Dim) and isinstance(w, Dim):
            return v._key() == w._key()
        if isinstance(v, Dim) or isinstance(w, Dim):
            return False
        return v == w
    if lo in (None, 0) and same(hi, size):
        return "all"
    if isinstance(size, int) and size == 1:
        lo_i = 0 if lo is None else lo
        hi_i = 1 if hi is None else hi
        if isinstance(lo_i, int) and isinstance(hi_i, int):
            if lo_i <= 0 and hi_i >= 1:
                return "all"
    raise ShimUnsupported(f"slice {lo}:{hi} on axis {axis}")


def _index_axis(arr, ax, k):
    """index one axis; returns (new array, marker)"""
    axis = arr.axes[ax]
    dpos = arr.dsum_positions()
    if isinstance(k, slice):
        sel = _slice_bounds(k, axis)
        if sel == "all":
            return arr, "kept"
        return _select_parts(arr, ax, sel), "kept"
    if isinstance(k, IndexArr):
        if k.kind == "range":
            # arange(lo, hi): contiguous selection
            lo = k.lo
            hi = lo + k.size
            return _index_axis(arr, ax, slice(lo, hi))
        if k.kind == "parts":
            return _select_parts(arr, ax, list(k.parts)), "kept"
        k = k.fresh()
        if isinstance(axis, DSum):
            raise ShimUnsupported("index map on a block axis")
        if axis.unit:
            # only index 0 is in range on an axis of size 1; an arbitrary index map addresses other components,
            # where jnp.take fills with NaN
            if not getattr(k, "zero", False):
                raise ShapeError("index map into an axis of size 1: out-of-range entries (jnp.take fills NaN) -- "
                                 "the object is not a batch with one entry per component")
            axes = list(arr.axes)
            axes[ax] = k.axis
            return SymArr(axes, arr.blocks), "kept"
        if len(k.terms) != len(axis.comps):
            raise ShimUnsupported("index map arity does not match the product axis")
        m = dict(zip(axis.comps, k.terms))
        for c_, t_ in zip(axis.comps, k.terms):
            if K.is_app(t_):
                W.map_sort[t_[1]] = c_.sort
        axes = list(arr.axes)
        axes[ax] = k.axis
        return SymArr(axes, {key: K.subst(e, m) for key, e in arr.blocks.items()}), "kept"
    if isinstance(k, int) and not isinstance(k, bool):
        if isinstance(axis, DSum):
            # constant index into a block axis: only a leading/trailing unit part is addressable
            parts = axis.parts
            if k == 0 and parts[0].unit:
                sub = _select_parts(arr, ax, [0])
                return _drop_unit(sub, ax), "dropped"
            if k == -1 and parts[-1].unit:
                sub = _select_parts(arr, ax, [len(parts) - 1])
                return _drop_unit(sub, ax), "dropped"
            raise ShimUnsupported("constant index into a block axis")
        if axis.unit:
            if k not in (0, -1):
                raise ShapeError("index out of bounds for axis of size 1")
            return _drop_unit(arr, ax), "dropped"
        if len(axis.comps) != 1:
            raise ShimUnsupported("constant index into a product axis")
        if k < 0:
            raise ShimUnsupported("negative constant index on a symbolic axis")
        m = {axis.comps[0]: IC(k)}
        axes = list(arr.axes)
        axes.pop(ax)
        return SymArr(axes, {key: K.subst(e, m) for key, e in arr.blocks.items()}), "dropped"
    raise ShimUnsupported(f"index of type {type(k).__name__}")


def _drop_unit(arr, ax):
    axes = list(arr.axes)
    assert isinstance(axes[ax], Axis) and axes[ax].unit
    axes.pop(ax)
    return SymArr(axes, arr.blocks)


def _select_parts(arr, ax, sel):
    axis = arr.axes[ax]
    if not isinstance(axis, DSum):
        raise ShimUnsupported("part selection on a simple axis")
    dpos = arr.dsum_positions()
    di = dpos.index(ax)
    if len(sel) == 0:
        raise ShimUnsupported("empty selection")
    axes = list(arr.axes)
    if len(sel) == 1:
        axes[ax] = axis.parts[sel[0]]
        blocks = {}
        for key, e in arr.blocks.items():
            if key[di] == sel[0]:
                blocks[key[:di] + key[di + 1:]] = e
        return SymArr(axes, blocks)
    axes[ax] = DSum([axis.parts[s] for s in sel])
    blocks = {}
    for key, e in arr.blocks.items():
        if key[di] in sel:
            blocks[key[:di] + (sel.index(key[di]),) + key[di + 1:]] = e
    return SymArr(axes, blocks)


class _At:
    def __init__(self, arr):
        self.arr = arr

    def __getitem__(self, key):
        return _AtKey(self.arr, key)


class _AtKey:
    def __init__(self, arr, key):
        self.arr = arr
        self.key = key

    def set(self, value):
        return _at_set(self.arr, self.key, value)


def _at_set(arr, key, value):
    W.count("at.set")
    if isinstance(key, IndexArr) or (isinstance(key, tuple) and len(key) == 1 and isinstance(key[0], IndexArr)):
        idx = key if isinstance(key, IndexArr) else key[0]
        return _scatter_set(arr, idx, value)
    if not isinstance(key, tuple):
        key = (key,)
    # block assignment: slices selecting parts of DSum axes
    arr = arr.fresh_copy()
    value = _lift(value)
    sels = []
    for n, k in enumerate(key):
        if not isinstance(k, slice):
            raise ShimUnsupported("at[].set with non-slice key")
        s = _slice_bounds(k, arr.axes[n])
        sels.append(s)
    sels += ["all"] * (arr.ndim - len(sels))
    # target sub-array view axes
    tgt_axes = []
    for a, s in zip(arr.axes, sels):
        if s == "all":
            tgt_axes.append(a)
        elif len(s) == 1:
            tgt_axes.append(a.parts[s[0]])
        else:
            tgt_axes.append(DSum([a.parts[i] for i in s]))
    tgt = SymArr(tgt_axes, {})
    # broadcast value to target shape
    zero = SymArr(tgt_axes, {k: K.ZERO for k in tgt.keys()})
    val = _broadcast_op([zero, value], lambda es: es[1])
    # val.axes unified with fresh copies of tgt_axes: need explicit mapping onto arr's IVs
    m = {}
    for va, ta in zip(val.axes, tgt_axes):
        if isinstance(ta, DSum):
            for p, q in zip(va.parts, ta.parts):
                for x, y in zip(p.comps, q.comps):
                    m[x] = y
        else:
            for x, y in zip(va.comps, ta.comps):
                m[x] = y
    blocks = dict(arr.blocks)
    dpos = arr.dsum_positions()
    for key_full in arr.keys():
        inside = True
        vkey = []
        for di, pos in enumerate(dpos):
            s = sels[pos]
            if s == "all":
                vkey.append(key_full[di])
            elif key_full[di] in s:
                if len(s) > 1:
                    vkey.append(s.index(key_full[di]))
            else:
                inside = False
                break
        if inside:
            blocks[key_full] = K.subst(val.block(tuple(vkey)), m)
    return SymArr(arr.axes, blocks)


def _scatter_set(arr, idx, value):
    """arr.at[idx].set(value) along axis 0 with an arbitrary index map: selector model (DESIGN C04/C12):
    result[r] = sel_idx[r] * value[src_idx(r)] + (1 - sel_idx[r]) * arr[r]"""
    if idx.kind != "map":
        raise ShimUnsupported("scatter with non-map index")
    arr = arr.fresh_copy()
    value = _lift(value).fresh_copy()
    ax = arr.axes[0]
    if isinstance(ax, DSum) or len(ax.comps) != 1:
        raise ShimUnsupported("scatter on a non-atomic axis")
    r = ax.comps[0]
    name = idx.name
    selector = K.atom(f"sel.{name}", r)
    W.ctx.idempotent.add(f"sel.{name}")
    vax = value.axes[0]
    m = {}
    if not vax.unit:
        m[vax.comps[0]] = K.app(f"src.{name}", r)
        W.map_sort[f"src.{name}"] = vax.comps[0].sort
    # remaining axes must match
    for a, b in zip(arr.axes[1:], value.axes[1:]):
        if not _same_struct(a, b):
            raise ShapeError("scatter value shape mismatch")
        if isinstance(a, DSum):
            for p, q in zip(a.parts, b.parts):
                for x, y in zip(p.comps, q.comps):
                    m[y] = x
        else:
            for x, y in zip(a.comps, b.comps):
                m[y] = x
    if arr.ndim != value.ndim:
        raise ShapeError("scatter value rank mismatch")
    blocks = {}
    for key, e in arr.blocks.items():
        v = K.subst(value.block(key), m)
        blocks[key] = K.add(K.mul(selector, v), K.mul(K.sub(K.ONE, selector), e))
    return SymArr(arr.axes, blocks)


# ------------------------------------------------------------------ structural ops
def reshape(x, shape, *more):
    W.count("reshape")
    if more:
        shape = (shape,) + tuple(more)
    if not isinstance(shape, (tuple, list)):
        shape = (shape,)
    x = _lift(x)
    shape = list(shape)
    # resolve a single -1
    if any(isinstance(s, int) and not isinstance(s, bool) and s == -1 for s in shape):
        if len([s for s in shape if isinstance(s, int) and s == -1]) > 1:
            raise ShapeError("can only specify one unknown dimension")
        at = [n for n, s in enumerate(shape) if isinstance(s, int) and s == -1][0]
        return _reshape_wild(x, shape[:at], shape[at + 1:])
    src = []   # flat list of elementary items: ('c', IV) or ('d', DSum)
    for a in x.axes:
        if isinstance(a, DSum):
            src.append(("d", a))
        else:
            for c in a.comps:
                src.append(("c", c))
    axes = []
    pos = 0
    wild_at = None
    for n, s in enumerate(shape):
        if isinstance(s, int) and not isinstance(s, bool):
            if s == 1:
                axes.append(UNIT)
                continue
            if s == -1:
                wild_at = n
                axes.append(None)
                continue
            # concrete size
            if pos < len(src) and src[pos][0] == "c" and src[pos][1].sort == f"#{s}":
                axes.append(Axis([src[pos][1]]))
                pos += 1
                continue
            raise ShapeError(f"cannot reshape array of shape {x.shape} into {tuple(shape)}")
        if not isinstance(s, Dim):
            raise ShimUnsupported(f"reshape size {s!r}")
        if len(s.terms) == 1 and s.terms[0][0] == 1:
            want = list(s.terms[0][1])
            got = []
            while want:
                if pos >= len(src) or src[pos][0] != "c" or src[pos][1].sort not in want:
                    raise ShapeError(f"cannot reshape array of shape {x.shape} into {tuple(shape)} "
                                     f"(row-major layout of axis {n} does not follow from the source layout)")
                c = src[pos][1]
                want.remove(c.sort)
                got.append(c)
                pos += 1
            axes.append(Axis(got))
        else:
            # sum size: must be a whole DSum axis
            if pos < len(src) and src[pos][0] == "d" and _as_dim(src[pos][1].size())._key() == s._key():
                axes.append(src[pos][1])
                pos += 1
            else:
                raise ShapeError(f"cannot reshape array of shape {x.shape} into {tuple(shape)}")
    if wild_at is not None:
        # the wildcard takes everything not consumed that sits at its position: recompute by splitting
        before = shape[:wild_at]
        after = shape[wild_at + 1:]
        # consume from the end for 'after'
        return _reshape_wild(x, before, after)
    if pos != len(src):
        raise ShapeError(f"cannot reshape array of shape {x.shape} into {tuple(shape)}")
    return SymArr(axes, x.blocks)


def _reshape_wild(x, before, after):
    # sizes of after-part determine how many trailing elementary comps they take
    src = []
    for a in x.axes:
        if isinstance(a, DSum):
            src.append(("d", a))
        else:
            for c in a.comps:
                src.append(("c", c))
    def count(shape_part):
        n = 0
        for s in shape_part:
            if isinstance(s, int):
                if s == 1:
                    continue
                n += 1
            elif len(s.terms) == 1:
                n += len(s.terms[0][1])
            else:
                n += 1
        return n
    nb, na = count(before), count(after)
    mid = src[nb:len(src) - na]
    if _b.any(t[0] == "d" for t in mid):
        if len(mid) == 1:
            wild = mid[0][1].size()
        else:
            raise ShimUnsupported("wildcard reshape over a block axis")
    elif not mid:
        wild = 1
    else:
        wild = Dim([(1, tuple(c[1].sort for c in mid))])
    return reshape(x, tuple(before) + (wild,) + tuple(after))


def transpose(x, axes=None):
    W.count("transpose")
    n = x.ndim
    if axes is None:
        axes = tuple(range(n))[::-1]
    axes = [a % n for a in axes]
    dpos = x.dsum_positions()
    new_axes = [x.axes[a] for a in axes]
    new_dpos = [a for a in axes if a in dpos]
    blocks = {}
    for key, e in x.blocks.items():
        kmap = dict(zip(dpos, key))
        blocks[tuple(kmap[a] for a in new_dpos)] = e
    return SymArr(new_axes, blocks)


def swapaxes(x, axis1, axis2):
    n = x.ndim
    perm = list(range(n))
    a, b = axis1 % n, axis2 % n
    perm[a], perm[b] = perm[b], perm[a]
    return transpose(x, perm)


def moveaxis(x, src, dst):
    n = x.ndim
    perm = [i for i in range(n) if i != src % n]
    perm.insert(dst % n, src % n)
    return transpose(x, perm)


def squeeze(x, axis=None):
    W.count("squeeze")
    if axis is None:
        axes = [a for a in x.axes if not (isinstance(a, Axis) and a.unit)]
        return SymArr(axes, x.blocks)
    if isinstance(axis, int):
        axis = (axis,)
    axis = [a % x.ndim for a in axis]
    for a in axis:
        if not (isinstance(x.axes[a], Axis) and x.axes[a].unit):
            raise ShapeError("cannot select an axis to squeeze out which has size not equal to one")
    return SymArr([ax for n, ax in enumerate(x.axes) if n not in axis], x.blocks)


def expand_dims(x, axis):
    axes = list(x.axes)
    axes.insert(axis if axis >= 0 else len(axes) + 1 + axis, UNIT)
    return SymArr(axes, x.blocks)


def tile(x, reps):
    W.count("tile")
    x = _lift(x).fresh_copy()
    if not isinstance(reps, (tuple, list)):
        reps = (reps,)
    reps = list(reps)
    axes = [UNIT] * (len(reps) - x.ndim) + x.axes
    reps = [1] * (len(axes) - len(reps)) + reps
    out = []
    for ax, r in zip(axes, reps):
        if isinstance(r, int) and r == 1:
            out.append(ax)
            continue
        new = _axis_from_dim(r)
        if isinstance(new, DSum):
            raise ShimUnsupported("tile by a sum size")
        if isinstance(ax, DSum):
            raise ShimUnsupported("tile of a block axis")
        out.append(Axis(new.comps + ax.comps))
    return SymArr(out, x.blocks)


def broadcast_to(x, shape):
    x = _lift(x)
    tgt = zeros(shape)
    return _broadcast_op([tgt, x], lambda es: es[1])


def diagonal(x, offset=0, axis1=0, axis2=1):
    W.count("diagonal")
    if offset != 0:
        raise ShimUnsupported("diagonal offset")
    x = x.fresh_copy()
    n = x.ndim
    a1, a2 = axis1 % n, axis2 % n
    A, B = x.axes[a1], x.axes[a2]
    if not _same_struct(A, B):
        raise ShimUnsupported(f"diagonal of a non-square array {A} x {B}")
    rest = [a for i, a in enumerate(x.axes) if i not in (a1, a2)]
    dpos = x.dsum_positions()
    if isinstance(A, DSum):
        d1, d2 = dpos.index(a1), dpos.index(a2)
        m = {}
        for p, q in zip(A.parts, B.parts):
            for c, d in zip(p.comps, q.comps):
                m[d] = c
        blocks = {}
        for key, e in x.blocks.items():
            if key[d1] != key[d2]:
                continue
            rest_key = tuple(k for i, k in enumerate(key) if i not in (d1, d2))
            blocks[rest_key + (key[d1],)] = K.subst(e, m)
        return SymArr(rest + [A], blocks)
    m = {q: p for p, q in zip(A.comps, B.comps)}
    return SymArr(rest + [A], {k: K.subst(e, m) for k, e in x.blocks.items()})


def trace(x, offset=0, axis1=0, axis2=1):
    W.count("trace")
    d = diagonal(x, offset, axis1, axis2)
    return sum(d, axis=-1)


def sum(x, axis=None, keepdims=False):  # noqa: A001
    W.count("sum")
    if isinstance(x, Stack):
        if axis != 0:
            raise ShimUnsupported("sum of a stack along a non-leading axis")
        return stack_sum(x)
    x = _lift(x).fresh_copy()
    if axis is None:
        axis = tuple(range(x.ndim))
    if isinstance(axis, int):
        axis = (axis,)
    axis = sorted(set(a % x.ndim for a in axis)) if x.ndim else []
    dpos = x.dsum_positions()
    new_axes = []
    for n, a in enumerate(x.axes):
        if n in axis:
            if keepdims:
                new_axes.append(UNIT)
        else:
            new_axes.append(a)
    blocks = {}
    for key in x.keys():
        e = x.block(key)
        sa = x.simple_axes(key)
        for n in axis:
            for c in sa[n].comps:
                e = K.ssum(c, e)
        nkey = tuple(k for pos, k in zip(dpos, key) if pos not in axis)
        if nkey in blocks:
            blocks[nkey] = K.add(blocks[nkey], e)
        else:
            blocks[nkey] = e
    return SymArr(new_axes, blocks)


def cumsum(x, axis=None):
    if isinstance(x, Stack) and axis == 0:
        return stack_sum(x, cumulative=True)
    raise ShimUnsupported("cumsum")


def concatenate(arrs, axis=0):
    W.count("concatenate")
    if any(isinstance(a, Stack) for a in arrs):
        if axis != 0:
            raise ShimUnsupported("concatenate stacks along a non-leading axis")
        rows = []
        for a in arrs:
            if isinstance(a, Stack):
                rows.extend(a.rows)
            else:
                a = _lift(a)
                if not (isinstance(a.axes[0], Axis) and a.axes[0].unit):
                    raise ShimUnsupported("concatenate a symbolic leading axis with a literal one")
                rows.append(a[0])
        return Stack(rows)
    arrs = [_lift(a).fresh_copy() for a in arrs]
    n = arrs[0].ndim
    axis = axis % n
    for a in arrs:
        if a.ndim != n:
            raise ShapeError("all the input array dimensions must match")
    # unify all other axes with the first array's
    first = arrs[0]
    ms = []
    for a in arrs:
        m = {}
        for pos in range(n):
            if pos == axis:
                continue
            A, B = first.axes[pos], a.axes[pos]
            if not _same_struct(A, B) or (isinstance(A, Axis) and A.unit != B.unit):
                raise ShapeError(f"concatenate: dimension mismatch on axis {pos}: {A} vs {B}")
            if isinstance(A, DSum):
                for p, q in zip(A.parts, B.parts):
                    for x_, y_ in zip(p.comps, q.comps):
                        m[y_] = x_
            else:
                for x_, y_ in zip(A.comps, B.comps):
                    m[y_] = x_
        ms.append(m)
    parts = []
    owner = []   # (array number, part number within that array's axis or None)
    for an, a in enumerate(arrs):
        A = a.axes[axis]
        if isinstance(A, DSum):
            for pn, p in enumerate(A.parts):
                parts.append(p)
                owner.append((an, pn))
        else:
            parts.append(A)
            owner.append((an, None))
    new_axes = list(first.axes)
    new_axes[axis] = DSum(parts)
    res = SymArr(new_axes, {})
    rdpos = res.dsum_positions()
    for key in res.keys():
        kmap = dict(zip(rdpos, key))
        an, pn = owner[kmap[axis]]
        a = arrs[an]
        akey = []
        for pos in a.dsum_positions():
            if pos == axis:
                akey.append(pn)
            else:
                akey.append(kmap[pos])
        res.blocks[key] = K.subst(a.block(tuple(akey)), ms[an])
    return res


def hstack(arrs):
    arrs = list(arrs)
    if _lift(arrs[0]).ndim == 1:
        return concatenate(arrs, 0)
    return concatenate(arrs, 1)


def vstack(arrs):
    return concatenate(list(arrs), 0)


def stack(arrs, axis=0):
    """jnp.stack along a new leading axis of literal length: the list of rows (same representation as an unrolled scan)"""
    W.count("stack")
    if axis != 0:
        raise ShimUnsupported("stack along an axis other than 0")
    return Stack([_lift(a) if not isinstance(a, (int, float, Fraction)) else a for a in arrs])


def block(nested):
    W.count("block")
    if not isinstance(nested, list):
        return _lift(nested)
    if _b.all(not isinstance(x, list) for x in nested):
        return concatenate(nested, axis=-1)
    rows = [block(r) for r in nested]
    return concatenate(rows, axis=-2)


# ------------------------------------------------------------------ constructors
def zeros(shape, dtype=None):
    W.count("zeros")
    if not isinstance(shape, (tuple, list)):
        shape = (shape,)
    axes = [_axis_from_dim(s) for s in shape]
    r = SymArr(axes, {})
    for k in r.keys():
        r.blocks[k] = K.ZERO
    return r


def ones(shape, dtype=None):
    W.count("ones")
    r = zeros(shape)
    r.blocks = {k: K.ONE for k in r.blocks}
    return r


def empty(shape, dtype=None):
    W.count("empty")
    r = zeros(shape)
    r.blocks = {k: None for k in r.blocks}
    return r


def zeros_like(x):
    return SymArr(x.axes, {k: K.ZERO for k in x.blocks}).fresh_copy()


def ones_like(x):
    return SymArr(x.axes, {k: K.ONE for k in x.blocks}).fresh_copy()


def eye(n, m=None, dtype=None):
    W.count("eye")
    if m is not None:
        same = (n == m) if not isinstance(n, Dim) else (isinstance(m, Dim) and n._key() == m._key())
        if not same:
            raise ShimUnsupported("rectangular eye")
    a = _axis_from_dim(n)
    mm = {}
    b = a.fresh(mm)
    if isinstance(a, DSum):
        r = SymArr([a, b], {})
        for (i, j) in r.keys():
            if i == j:
                e = K.ONE
                for c, d in zip(a.parts[i].comps, b.parts[j].comps):
                    e = K.mul(e, K.delta(c, d))
                r.blocks[(i, j)] = e
            else:
                r.blocks[(i, j)] = K.ZERO
        return r
    e = K.ONE
    for c, d in zip(a.comps, b.comps):
        e = K.mul(e, K.delta(c, d))
    return SymArr([a, b], {(): e})


def array(x, dtype=None):
    if isinstance(x, SymArr):
        return x
    if isinstance(x, (int, float)):
        return _lift(x)
    if isinstance(x, (list, tuple)) and x and _b.all(isinstance(k, int) and not isinstance(k, bool) for k in x):
        # literal index list: addresses whole parts of a block axis whose parts have size one (e.g. the 2-vector (g, h))
        r = IndexArr("parts", parts=list(x), size=None)
        r.of = None
        r.literal = True
        return r
    raise ShimUnsupported("jnp.array of a Python container")


asarray = array
float64 = "float64"
int32 = "int32"


def ix_(*idx):
    return tuple(idx)


# ------------------------------------------------------------------ einsum & friends
def einsum(spec, *ops, **kw):
    W.count("einsum")
    W.count("einsum:" + spec.replace(" ", ""))
    spec = spec.replace(" ", "")
    if "->" not in spec:
        raise ShimUnsupported("implicit einsum output")
    ins, out = spec.split("->")
    ins = ins.split(",")
    if len(ins) != len(ops):
        raise ShapeError("einsum: number of operands does not match the subscripts")
    ops = [_lift(op).fresh_copy() for op in ops]
    letter_axis = {}
    m = {}
    for s, op in zip(ins, ops):
        if len(s) != op.ndim:
            raise ShapeError(f"einsum: operand has {op.ndim} dimensions, subscripts '{s}' has {len(s)}")
        seen_here = {}
        for ch, ax in zip(s, op.axes):
            if isinstance(ax, Axis) and ax.unit:
                continue
            if ch not in letter_axis:
                letter_axis[ch] = ax
            else:
                tgt = letter_axis[ch]
                if not _same_struct(tgt, ax):
                    raise ShapeError(f"einsum: size of label '{ch}' does not match: {tgt} vs {ax}")
                if isinstance(tgt, DSum):
                    for p, q in zip(tgt.parts, ax.parts):
                        for x_, y_ in zip(p.comps, q.comps):
                            if x_ is not y_:
                                m[y_] = x_
                else:
                    for x_, y_ in zip(tgt.comps, ax.comps):
                        if x_ is not y_:
                            m[y_] = x_
    for ch in out:
        if ch not in "".join(ins):
            raise ShapeError(f"einsum: output label '{ch}' not in inputs")
    res_axes = [letter_axis.get(ch, UNIT) for ch in out]
    dletters = [ch for ch, ax in letter_axis.items() if isinstance(ax, DSum)]
    res = SymArr(res_axes, {})
    out_d = [ch for ch in out if ch in dletters]
    for choice in itertools.product(*[range(len(letter_axis[ch].parts)) for ch in dletters]):
        cm = dict(zip(dletters, choice))
        exprs = []
        for s, op in zip(ins, ops):
            okey = tuple(cm[ch] for ch, ax in zip(s, op.axes) if isinstance(ax, DSum))
            exprs.append(K.subst(op.block(okey), m))
        e = K.mul(*exprs)
        for ch, ax in letter_axis.items():
            if ch not in out:
                comps = ax.parts[cm[ch]].comps if isinstance(ax, DSum) else ax.comps
                for c in comps:
                    e = K.ssum(c, e)
        rkey = tuple(cm[ch] for ch in out_d)
        if rkey in res.blocks:
            res.blocks[rkey] = K.add(res.blocks[rkey], e)
        else:
            res.blocks[rkey] = e
    if getattr(W, "eager", False):
        res = simplify_array(res)
    return res


def simplify_array(arr):
    """replace every block expression by its normal form (semantically equal by soundness of the kernel);
    used to keep intermediate expressions small when inverse relations cancel early"""
    blocks = {}
    for k, e in arr.blocks.items():
        if e is None:
            blocks[k] = None
            continue
        p = K.normalize(e, W.ctx)
        blocks[k] = K.poly_to_expr(p) if p else K.ZERO
    return SymArr(arr.axes, blocks)


def dot(a, b):
    W.count("dot")
    a, b = _lift(a), _lift(b)
    if a.ndim == 2 and b.ndim == 2:
        return einsum("ab,bc->ac", a, b)
    if a.ndim == 1 and b.ndim == 1:
        return einsum("a,a->", a, b)
    if a.ndim == 2 and b.ndim == 1:
        return einsum("ab,b->a", a, b)
    if a.ndim == 1 and b.ndim == 2:
        return einsum("a,ab->b", a, b)
    raise ShimUnsupported("dot with ndim > 2")


def matmul(a, b):
    """numpy matmul semantics: the last two axes are multiplied, the leading (batch) axes are right-aligned and broadcast"""
    W.count("matmul")
    a, b = _lift(a), _lift(b)
    if a.ndim == 1 and b.ndim == 1:
        return einsum("a,a->", a, b)
    if a.ndim == 1:
        return squeeze(matmul(a[None], b), -2)
    if b.ndim == 1:
        return squeeze(matmul(a, b[..., None]), -1)
    na, nb = a.ndim - 2, b.ndim - 2
    n = max(na, nb)
    if n > 6:
        raise ShimUnsupported("matmul with more than six batch axes")
    L = "abcdef"[:n]
    return einsum(f"{L[n - na:]}xy,{L[n - nb:]}yz->{L}xz", a, b)


def outer(a, b):
    return einsum("a,b->ab", a, b)


# ------------------------------------------------------------------ elementwise functions
def _unary(name):
    def f(x):
        W.count(name)
        x = _lift(x)
        return SymArr(x.axes, {k: K.fn(name, x.block(k)) for k in x.blocks})
    f.__name__ = name
    return f


log = _unary("log")
exp = _unary("exp")
sqrt = _unary("sqrt")
cosh = _unary("cosh")
tanh = _unary("tanh")


def abs(x):  # noqa: A001
    return _unary("abs")(x)


def square(x):
    return _lift(x) ** 2


def negative(x):
    return -_lift(x)


def add(a, b):
    return _lift(a) + b


def subtract(a, b):
    return _lift(a) - b


def multiply(a, b):
    return _lift(a) * b


def divide(a, b):
    return _lift(a) / b


def take(arr, indices, axis=None, **kw):
    W.count("take")
    if axis is None:
        raise ShimUnsupported("take without axis")
    arr = _lift(arr)
    axis = axis % arr.ndim
    key = (slice(None),) * axis + (indices,)
    if not isinstance(indices, IndexArr):
        if isinstance(indices, int):
            return _getitem(arr, key)
        raise ShimUnsupported("take with non-symbolic indices")
    return _getitem(arr, key)


def equal(a, b):
    """jnp.equal of two real arrays: decided only when the kernel proves them identical (then all-true)"""
    W.count("equal")
    ok, _ = W._equal(_lift(a), _lift(b))
    if ok:
        return BoolConst(True, "operands are identical for all inputs")
    raise ShimUnsupported("jnp.equal of arrays that are not provably identical")


def setxor1d(a, b):
    """sorted complement of index list b in a = arange(D) (assumed contract of jnp.setxor1d): the other part of the
    declared partition of the sort"""
    W.count("setxor1d")
    if isinstance(a, IndexArr) and a.kind == "range" and isinstance(b, IndexArr) and b.kind == "map" and b.name in W.ctx.part_of:
        srt, pos = W.ctx.part_of[b.name]
        parts = W.ctx.partitions[srt]
        if len(parts) == 2:
            nm, ps = parts[1 - pos]
            return index_map(nm, ps)
    if isinstance(a, IndexArr) and a.kind == "range" and isinstance(b, IndexArr) and b.kind == "parts":
        r = IndexArr("parts", parts=[k for k in range(b.of) if k not in b.parts], size=None)
        r.of = b.of
        return r
    raise ShimUnsupported("setxor1d pattern")


newaxis = None


class _Linalg:
    @staticmethod
    def slogdet(x):
        W.count("slogdet")
        from . import matrices
        return (None, matrices.logdet_contract(x))

    @staticmethod
    def cholesky(x):
        W.count("cholesky")
        from . import matrices
        return matrices.cholesky_contract(x)

    @staticmethod
    def inv(x):
        raise ShimUnsupported("jnp.linalg.inv")


linalg = _Linalg()
ndarray = SymArr


def atom_array(name, *dims, sym=None):
    """fresh symbolic array: one atom indexed by its non-unit axes.  dims: sort names, 1, or Dim"""
    axes = []
    for d in dims:
        if isinstance(d, str):
            axes.append(Axis([IV(d)]))
        elif isinstance(d, int) and d == 1:
            axes.append(UNIT)
        else:
            axes.append(_axis_from_dim(d))
    idx = []
    for a in axes:
        if isinstance(a, DSum):
            raise ShimUnsupported("atom_array over a block axis: build it per block")
        idx.extend(a.comps)
    if sym:
        W.ctx.sym[name] = sym
    return SymArr(axes, {(): K.atom(name, *idx)})


pi = SymArr([], {(): K.atom("PI")})
inf = SymArr([], {(): K.atom("INF")})


# ------------------------------------------------------------------ concrete stacks (leading axis of literal size)
class Stack:
    """an array whose leading axis has a small literal size, stored as the Python list of its rows (each row a
    SymArr, int or Fraction).  Created by scan (unrolled), arange with int bounds and concatenate along axis 0."""

    def __init__(self, rows, extra_dims=0):
        self.rows = list(rows)
        self.extra_dims = extra_dims      # trailing unit axes of scalar (int) rows

    @property
    def ndim(self):
        if not self.rows:
            return 1 + self.extra_dims
        r = self.rows[0]
        return 1 + (r.ndim if isinstance(r, SymArr) else self.extra_dims)

    @staticmethod
    def _row_of(x, n_rows, stack_ndim):
        """the operand to combine with each row, given numpy broadcasting against a stack of rank stack_ndim"""
        if isinstance(x, (int, float, Fraction, Dim)):
            return [x] * n_rows
        if isinstance(x, Stack):
            if len(x.rows) == 1:
                return x.rows * n_rows
            if len(x.rows) != n_rows:
                raise ShapeError("stack length mismatch")
            return x.rows
        if isinstance(x, SymArr):
            if x.ndim >= stack_ndim:
                lead = x.axes[x.ndim - stack_ndim]
                if not (isinstance(lead, Axis) and lead.unit):
                    raise ShapeError("cannot broadcast a symbolic axis against a literal axis")
                key = (slice(None),) * (x.ndim - stack_ndim) + (0,)
                x = x[key]
            return [x] * n_rows
        raise ShimUnsupported(f"stack operand {type(x).__name__}")

    @staticmethod
    def _binary(a, b, f):
        n = max(len(x.rows) for x in (a, b) if isinstance(x, Stack))
        nd = max(x.ndim for x in (a, b) if isinstance(x, Stack))
        ra, rb = Stack._row_of(a, n, nd), Stack._row_of(b, n, nd)
        ed = max([x.extra_dims for x in (a, b) if isinstance(x, Stack)])
        return Stack([f(x, y) for x, y in zip(ra, rb)], extra_dims=ed)

    def __mul__(self, o):
        return Stack._binary(self, o, lambda x, y: x * y)

    def __rmul__(self, o):
        return Stack._binary(o, self, lambda x, y: x * y)

    def __add__(self, o):
        return Stack._binary(self, o, lambda x, y: x + y)

    def __radd__(self, o):
        return Stack._binary(o, self, lambda x, y: x + y)

    def __sub__(self, o):
        return Stack._binary(self, o, lambda x, y: x - y)

    def __rsub__(self, o):
        return Stack._binary(o, self, lambda x, y: x - y)

    def __pow__(self, o):
        return Stack._binary(self, o, lambda x, y: x ** y)

    def __rpow__(self, o):
        return Stack._binary(o, self, lambda x, y: x ** y)

    def __getitem__(self, key):
        if not isinstance(key, tuple):
            key = (key,)
        if key[0] == slice(None):
            rest = key[1:]
            if not rest:
                return self
            nnew = len([k_ for k_ in rest if k_ is None])
            return Stack([(r[rest] if isinstance(r, SymArr) else r) for r in self.rows],
                         extra_dims=self.extra_dims + (nnew if self.rows and not isinstance(self.rows[0], SymArr) else 0))
        if isinstance(key[0], int):
            r = self.rows[key[0]]
            return r[key[1:]] if key[1:] else r
        if isinstance(key[0], slice) and key[0].step in (None, 1):
            lo = key[0].start or 0
            hi = key[0].stop
            if isinstance(lo, int) and (hi is None or isinstance(hi, int)):
                sub = Stack(self.rows[lo:hi], extra_dims=self.extra_dims)
                return sub[(slice(None),) + key[1:]] if key[1:] else sub
        raise ShimUnsupported("stack indexing")


def stack_sum(st, cumulative=False):
    tot = None
    out = []
    for r in st.rows:
        tot = r if tot is None else tot + r
        out.append(tot)
    return Stack(out) if cumulative else _lift(tot)


def at_index(arr, *ivs_per_axis):
    """expression of a (non-block) array at given index variables (one list per axis comps, flattened)"""
    comps = [c for ax in arr.axes for c in ax.comps]
    flat = list(ivs_per_axis)
    if [c.sort for c in comps] != [v.sort if isinstance(v, IV) else None for v in flat] and \
            len(comps) != len(flat):
        raise ShapeError(f"at_index: {[c.sort for c in comps]} vs {flat}")
    for c, v in zip(comps, flat):
        if isinstance(v, IV) and v.sort != c.sort:
            raise ShapeError(f"at_index sort mismatch: {[c.sort for c in comps]} vs {[getattr(v, 'sort', v) for v in flat]}")
    return K.rename_bound(K.subst(arr.expr, dict(zip(comps, flat))))


# ------------------------------------------------------------------ vmap / while_loop (approximate conditionals)
def vmap(f, in_axes=0, out_axes=0):
    """jax.vmap over the leading axis of every mapped argument: ONE generic execution of f on the row with a fresh index
    variable k that is external to the row's axes; the result gets k back as its leading axis"""
    def g(*args):
        W.count("vmap")
        n = len(args)
        ia = in_axes if isinstance(in_axes, (tuple, list)) else (in_axes,) * n
        if len(ia) != n:
            ia = tuple(ia) + (0,) * (n - len(ia))
        k = None
        rows = []
        for a, ax in zip(args, ia):
            if ax is None:
                rows.append(a)
                continue
            if ax != 0:
                raise ShimUnsupported("vmap over a non-leading axis")
            a = _lift(a).fresh_copy()
            lead = a.axes[0]
            if isinstance(lead, DSum) or len(lead.comps) != 1:
                raise ShimUnsupported("vmap over a unit / product / block axis")
            if k is None:
                k = IV(lead.comps[0].sort)
            elif k.sort != lead.comps[0].sort:
                raise ShapeError("vmap: mapped axes have different sizes")
            rows.append(SymArr(a.axes[1:], {key: K.subst(e, {lead.comps[0]: k}) for key, e in a.blocks.items()}))
        out = f(*rows)

        def wrap(o):
            o = _lift(o)
            k2 = IV(k.sort)
            return SymArr([Axis([k2])] + o.axes, {key: K.subst(e, {k: k2}) for key, e in o.blocks.items()})
        if isinstance(out, tuple):
            return tuple(wrap(o) for o in out)
        return wrap(out)
    return g


def while_loop_contract(cond_fun, body_fun, init_val):
    """lax.while_loop used as a fixed-point iteration for a variational parameter: replaced by its contract -- the first
    component of the result is an ARBITRARY positive array of the shape of init_val[0] (any positive value gives a valid
    bound, so the loop needs no invariant); interned by the initial value so that the same call yields the same atom"""
    W.count("while_loop(contract)")
    x0 = _lift(init_val[0]).fresh_copy()
    p = K.normalize(x0.expr, W.ctx)
    comps = [c for a in x0.axes for c in a.comps]
    ext = [v for v in K._free_ivs_of_canon(p) if not _b.any(v is c for c in comps)]
    order = ext + comps
    form, _ = K._poly_form(p, {v: ("H", i) for i, v in enumerate(order)})
    reg = W.__dict__.setdefault("while_registry", {})
    if form not in reg:
        reg[form] = f"omega_star{len(reg)}"
    W.assumptions.add("lax.while_loop fixed point replaced by an arbitrary positive value (contract)") if hasattr(W, "assumptions") else None
    res = SymArr(x0.axes, {(): K.atom(reg[form], *order)})
    return (res,) + tuple(init_val[1:])


# ------------------------------------------------------------------ further jnp functions (robustness against harmless refactors)
def repeat(x, repeats, axis=None):
    """jnp.repeat(x, n, axis): every slice along `axis` repeated n times in place = the product axis (slice, copy)"""
    W.count("repeat")
    x = _lift(x).fresh_copy()
    if axis is None:
        raise ShimUnsupported("jnp.repeat without an axis")
    if isinstance(repeats, (SymArr, IndexArr)):
        raise ShimUnsupported("jnp.repeat with per-element repeats")
    ax = axis % x.ndim
    new = _axis_from_dim(repeats)
    if isinstance(new, DSum) or isinstance(x.axes[ax], DSum):
        raise ShimUnsupported("jnp.repeat on / by a block axis")
    axes = list(x.axes)
    axes[ax] = Axis(x.axes[ax].comps + new.comps)
    return SymArr(axes, x.blocks)


def power(x, p):
    return _lift(x) ** p


def reciprocal(x):
    return 1.0 / _lift(x)


def log1p(x):
    return log(1.0 + _lift(x))


def expm1(x):
    return exp(_lift(x)) - 1.0


def sinh(x):
    x = _lift(x)
    return 0.5 * (exp(x) - exp(-x))


def identity(n, dtype=None):
    return eye(n)


def full(shape, fill_value, dtype=None):
    return fill_value * ones(shape)


def mean(x, axis=None, keepdims=False):
    x = _lift(x)
    if axis is None:
        raise ShimUnsupported("jnp.mean without an axis")
    n = x.shape[axis % x.ndim]
    return sum(x, axis=axis, keepdims=keepdims) / n


def diag(v, k=0):
    """vector -> diagonal matrix, matrix -> its diagonal"""
    v = _lift(v)
    if k != 0:
        raise ShimUnsupported("jnp.diag with an offset")
    if v.ndim == 1:
        return v[:, None] * eye(v.shape[0])
    if v.ndim == 2:
        return diagonal(v)
    raise ShimUnsupported("jnp.diag of an array of rank > 2")


def ravel(x):
    x = _lift(x)
    return reshape(x, (-1,))
