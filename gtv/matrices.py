"""Contracts of the linear-algebra callees (DESIGN §3.3, §7-E): invert_matrix, slogdet, cholesky.

invert_matrix(A) for symmetric positive definite A returns (Inv[A], LogDet[A]):
  * if A is (a tiled / sliced view of) a generator atom with a registered inverse partner, the partner;
  * otherwise an interned atom Inv<n> with the relation Inv<n>·A = I registered in the kernel, and LD<n>.
LogDet atoms are rewritten by Lean-checked lemma instances (gtv.lemmas) whose matrix side is checked by the kernel.
"""
from fractions import Fraction
from . import kernel as K
from . import shim as S
from .kernel import IV


def declare_pair(w, P, Q, ld, nbatch, sign=1):
    """P, Q mutually inverse symmetric matrix atoms with `nbatch` leading batch indices; ld = LogDet[P] atom"""
    ctx = w.ctx
    ctx.sym[P] = [(nbatch, nbatch + 1)]
    ctx.sym[Q] = [(nbatch, nbatch + 1)]
    ctx.inv_pairs[P] = Q
    ctx.inv_pairs[Q] = P
    w.partners[P] = (Q, ld, Fraction(1))
    w.partners[Q] = (P, ld, Fraction(-1))


class BlockMatrix(Exception):
    pass


class ScalarMatrix(Exception):
    pass


def _matrix_axes(A):
    if A.ndim < 2:
        raise S.ShapeError("matrix contract applied to an array with fewer than 2 axes")
    row, col = A.axes[-2], A.axes[-1]
    if isinstance(row, S.Axis) and isinstance(col, S.Axis) and row.unit and col.unit:
        raise ScalarMatrix()
    if isinstance(row, S.DSum) or isinstance(col, S.DSum):
        raise BlockMatrix()
    if row.sorts() != col.sorts():
        raise S.ShapeError(f"matrix is not square: {row} x {col}")
    if len(row.comps) != 1:
        raise S.ShimUnsupported("matrix over a product / unit axis")
    for a in A.axes[:-2]:
        if isinstance(a, S.DSum):
            raise S.ShimUnsupported("block batch axis")
    return row.comps[0], col.comps[0]


def _single_atom(p):
    if len(p) != 1:
        return None
    (f, nb), c = next(iter(p.items()))
    if nb or len(f) != 1 or f[0][0] != "A" or f[0][3] != 1:
        return None
    return c, f[0]


def _diagonal_entry(p, row, col):
    """if the canonical poly p is delta(row,col) * e(row) return the Expr e (in terms of row) else None"""
    if not p:
        return None
    terms = []
    for (f, nb), c in p.items():
        rest, found = [], False
        for x in f:
            if (not found) and x[0] == "D" and ((x[1] is row and x[2] is col) or (x[1] is col and x[2] is row)):
                found = True
            else:
                rest.append(x)
        if not found:
            return None
        # after normalisation the other factors mention only one of row/col
        uses_col = any(u is col for x in rest for t in K._fidx(x) for u in K.ivs_in(t))
        e = K._mono_to_expr(tuple(rest), c, {})
        if uses_col:
            e = K.subst(e, {col: row})
        terms.append(e)
    return ("add", tuple(terms))


def _check_symmetric(w, A, row, col):
    i, j = IV(row.sort), IV(col.sort)
    e1 = K.subst(A.expr, {row: i, col: j})
    e2 = K.rename_bound(K.subst(A.expr, {row: j, col: i}))
    d = K.sub(e1, e2)
    if not K.normalize(d, w.ctx):
        return True
    try:
        return not K.residual(w._apply_ld_rules(d), w.ctx)
    except Exception:  # noqa
        return False


def _block_logdet(w, A):
    """GtvLemmas.det_fromBlocks11 / 22 (Schur):  ln det [[A,B],[C,D]] = ln det D + ln det(A - B D^-1 C)
                                                               = ln det A + ln det(D - C A^-1 B)
    both are theorems; the pivot that leaves fewer uninterpreted LogDet atoms is used."""
    row, col = A.axes[-2], A.axes[-1]
    if not (isinstance(row, S.DSum) and isinstance(col, S.DSum) and len(row.parts) == 2 and row.sorts() == col.sorts()):
        raise S.ShimUnsupported("determinant of a block matrix that is not 2x2 blocks")
    n = A.ndim

    def blk(i, j):
        return S._getitem(S._getitem(A, (Ellipsis, S.IndexArr("parts", parts=[i], size=None), slice(None))),
                          (Ellipsis, S.IndexArr("parts", parts=[j], size=None)))
    A11, A12, A21, A22 = blk(0, 0), blk(0, 1), blk(1, 0), blk(1, 1)
    letters = "abcdefgh"[: n - 2]
    best = None
    for pivot in (22, 11):
        try:
            if pivot == 22:
                Dinv, ldD = intern_matrix(w, A22.fresh_copy(), True)
                schur = A11 - S.einsum(f"{letters}ij,{letters}jk,{letters}kl->{letters}il", A12, Dinv, A21)
            else:
                Dinv, ldD = intern_matrix(w, A11.fresh_copy(), True)
                schur = A22 - S.einsum(f"{letters}ij,{letters}jk,{letters}kl->{letters}il", A21, Dinv, A12)
            _, ldS = intern_matrix(w, schur.fresh_copy(), False)
        except (S.ShimUnsupported, BlockMatrix):
            continue
        val = ldD + ldS
        unresolved = len([a for a in K.atoms_of(val.expr) if a.startswith("LD")])
        if best is None or unresolved < best[0]:
            best = (unresolved, val, pivot)
        if unresolved == 0:
            break
    if best is None:
        raise S.ShimUnsupported("block determinant: no usable pivot")
    w.hints_used.append(f"GtvLemmas.det_fromBlocks" + str(best[2]))
    return best[1]


def _peek_cost(w, B):
    """how expensive is the inverse of (non-block) matrix B for the kernel: 0 if it is already known (partner, interned
    inverse, diagonal, registered family), else 1 + number of terms"""
    try:
        row, col = _matrix_axes(B)
    except ScalarMatrix:
        return 0
    except BlockMatrix:
        return 10 ** 6
    p = K.normalize(B.expr, w.ctx)
    sa = _single_atom(p)
    if sa is not None and (sa[1][1] in w.partners or sa[1][1].startswith("Inv")):
        return 0
    if _diagonal_entry(p, row, col) is not None:
        return 0
    try:
        key, _, _ = matrix_key(w, B)
    except Exception:  # noqa
        return 10 ** 6
    rec = w.inv_registry.get(key)
    if rec is not None and rec.get("registered"):
        return 0
    return 1 + len(p)


def _block_inverse(w, A):
    """GtvLemmas.inv_fromBlocks11 / 22: inverse of [[A,B],[C,D]] through the Schur complement of the pivot block
         pivot 11:  Si = (D - C Ai B)^-1,  [[Ai + Ai B Si C Ai, -Ai B Si], [-Si C Ai, Si]]
         pivot 22:  Si = (A - B Di C)^-1,  [[Si, -Si B Di], [-Di C Si, Di + Di C Si B Di]]
    and ln det = ln det(pivot) + ln det(Schur) (det_fromBlocks11 / 22).  Both pivots give THE inverse (it is unique), the
    pivot whose own inverse is already known to the kernel is taken."""
    row, col = A.axes[-2], A.axes[-1]
    if not (isinstance(row, S.DSum) and isinstance(col, S.DSum) and len(row.parts) == 2 and row.sorts() == col.sorts()
            and not any(isinstance(a_, S.DSum) for a_ in A.axes[:-2])):
        raise S.ShimUnsupported("inverse of a block matrix that is not 2x2 blocks")
    n = A.ndim

    def blk(i, j):
        return S._getitem(S._getitem(A, (Ellipsis, S.IndexArr("parts", parts=[i], size=None), slice(None))),
                          (Ellipsis, S.IndexArr("parts", parts=[j], size=None)))
    A11, A12, A21, A22 = blk(0, 0), blk(0, 1), blk(1, 0), blk(1, 1)
    L = "abcdefgh"[: n - 2]
    c11, c22 = _peek_cost(w, A11.fresh_copy()), _peek_cost(w, A22.fresh_copy())
    pivot = 11 if c11 <= c22 else 22

    def mm(*Ms):
        letters = "ijklmnop"
        spec = ",".join(f"{L}{letters[k]}{letters[k + 1]}" for k in range(len(Ms))) + f"->{L}{letters[0]}{letters[len(Ms)]}"
        return S.einsum(spec, *Ms)
    def symm(P, Q):
        return w._equal(P, S.swapaxes(Q, -1, -2))[0]
    # GtvLemmas.schur_symm: the Schur complement of a symmetric block matrix w.r.t. a symmetric pivot is symmetric
    sym_all = symm(A11, A11) and symm(A22, A22) and symm(A12, A21)
    if sym_all:
        w.hints_used.append("GtvLemmas.schur_symm")

    def attempt(pivot):
        if pivot == 11:
            Pi, ldP = intern_matrix(w, A11.fresh_copy(), True)
            Sc = A22 - mm(A21, Pi, A12)
            Si, ldS = intern_matrix(w, Sc.fresh_copy(), True, assume_symmetric=sym_all)
            return (Pi + mm(Pi, A12, Si, A21, Pi), -mm(Pi, A12, Si), -mm(Si, A21, Pi), Si, ldP + ldS)
        Pi, ldP = intern_matrix(w, A22.fresh_copy(), True)
        Sc = A11 - mm(A12, Pi, A21)
        Si, ldS = intern_matrix(w, Sc.fresh_copy(), True, assume_symmetric=sym_all)
        return (Si, -mm(Si, A12, Pi), -mm(Pi, A21, Si), Pi + mm(Pi, A21, Si, A12, Pi), ldP + ldS)
    try:
        X11, X12, X21, X22, ld = attempt(pivot)
    except S.ShimUnsupported:
        # the Schur complement of the cheaper pivot is not provably symmetric for the kernel: take the other pivot
        pivot = 33 - pivot
        X11, X12, X21, X22, ld = attempt(pivot)
    X = S.concatenate([S.concatenate([X11, X12], axis=-1), S.concatenate([X21, X22], axis=-1)], axis=-2)
    w.hints_used.append(f"GtvLemmas.inv_fromBlocks{pivot}")
    w.hints_used.append(f"GtvLemmas.det_fromBlocks{pivot}")
    w.__dict__.setdefault("block_inverse_log", []).append((A, X, ld))
    return X.fresh_copy(), ld.fresh_copy()


def intern_matrix(w, A, want_inverse, assume_symmetric=False):
    """returns (inv SymArr or None, logdet SymArr) for matrix array A (already a fresh copy)"""
    ctx = w.ctx
    try:
        row, col = _matrix_axes(A)
    except ScalarMatrix:
        # 1x1 matrices: inverse = reciprocal, ln det = ln of the entry (positive by precondition)
        inv = S.SymArr(A.axes, {(): K.powr(A.expr, -1)}).fresh_copy() if want_inverse else None
        if w.ld_rules_by_key:
            skey, A_, occ_ = _scalar_key(w, A)
            rule = w.ld_rules_by_key.get(("scalar", skey))
            if rule is not None:
                val = K.rename_bound(K.subst(rule["value"], dict(zip(rule["batch"], occ_))))
                m_ = {}
                for a_, b_ in zip(A_.axes[:-2], A.axes[:-2]):
                    m_.update(zip(a_.comps, b_.comps))
                w.hints_used.append(rule["lemma"])
                return inv, S.SymArr(A.axes[:-2], {(): K.subst(val, m_)}).fresh_copy()
        return inv, S.SymArr(A.axes[:-2], {(): K.fn("log", A.expr)}).fresh_copy()
    except BlockMatrix:
        row_, col_ = A.axes[-2], A.axes[-1]
        if (isinstance(row_, S.DSum) and isinstance(col_, S.DSum) and len(row_.parts) == 2 and len(col_.parts) == 2
                and all(p_.unit for p_ in row_.parts) and all(p_.unit for p_ in col_.parts) and not any(isinstance(a_, S.DSum) for a_ in A.axes[:-2])):
            # 2x2 matrix of scalars: explicit inverse and determinant (adjugate formula)
            a11, a12, a21, a22 = A.block((0, 0)), A.block((0, 1)), A.block((1, 0)), A.block((1, 1))
            det = K.sub(K.mul(a11, a22), K.mul(a12, a21))
            ld = S.SymArr(A.axes[:-2], {(): K.fn("log", det)})
            inv = None
            if want_inverse:
                dinv = K.powr(det, -1)
                inv = S.SymArr(A.axes, {(0, 0): K.mul(a22, dinv), (0, 1): K.neg(K.mul(a12, dinv)),
                                        (1, 0): K.neg(K.mul(a21, dinv)), (1, 1): K.mul(a11, dinv)}).fresh_copy()
            w.hints_used.append("2x2 adjugate inverse")
            return inv, ld.fresh_copy()
        # the argument IS a block inverse handed out earlier by this contract: its inverse is the original matrix and its
        # log-determinant the negative of the original's (GtvLemmas.det_inv_of_mul_eq_one)
        for (A0, X0, ld0) in w.__dict__.get("block_inverse_log", []):
            try:
                same = [S._same_struct(a_, b_) for a_, b_ in zip(A.axes, X0.axes)]
                if len(A.axes) == len(X0.axes) and all(same) and w._equal(A, X0)[0]:
                    w.hints_used.append("GtvLemmas.det_inv_of_mul_eq_one")
                    return (A0.fresh_copy() if want_inverse else None), (-ld0).fresh_copy()
            except (S.ShimUnsupported, S.ShapeError, K.KernelError):
                continue
        if want_inverse:
            return _block_inverse(w, A)
        return None, _block_logdet(w, A)
    # batch-index abstraction: a matrix family indexed through index maps (slices, picks, scatter sources) is the
    # instantiation of the family indexed by plain batch variables; intern the family and instantiate its atoms
    batch0 = [c for a in A.axes[:-2] for c in a.comps]
    abst = {}
    bset = set(map(id, batch0))

    def _abs(t):
        if K.is_app(t) and t[1] in w.map_sort and all(id(v) in bset for v in K.ivs_in(t)):
            key_ = repr(t)
            if key_ not in abst:
                abst[key_] = (t, IV(w.map_sort[t[1]]))
            return abst[key_][1]
        return t
    if any(K.is_app(t) for t in K.index_terms(A.expr)):
        Aexpr2 = K.map_indices(A.expr, _abs)
        if abst:
            inner = S.SymArr([S.Axis([u]) for (_, u) in abst.values()] + [a for a in A.axes], {(): Aexpr2})
            inv_f, ld_f = intern_matrix(w, inner, want_inverse, assume_symmetric)
            # instantiate: substitute the abstraction variables back by their terms
            def inst(arr):
                if arr is None:
                    return None
                comps = [a.comps[0] for a in arr.axes[:len(abst)]]
                m_ = {c: t for c, (t, _) in zip(comps, abst.values())}
                return S.SymArr(arr.axes[len(abst):], {(): K.subst(arr.expr, m_)})
            # align remaining axes of the results with A's axes
            def align(arr, axes):
                if arr is None:
                    return None
                m_ = {}
                for a_, b_ in zip(arr.axes, axes):
                    m_.update(zip(a_.comps, b_.comps))
                return S.SymArr(list(axes), {(): K.subst(arr.expr, m_)})
            inv_i = align(inst(inv_f), A.axes)
            ld_i = align(inst(ld_f), A.axes[:-2])
            return (inv_i.fresh_copy() if inv_i is not None else None), ld_i.fresh_copy()
    p = K.normalize(A.expr, ctx)
    batch_comps = [c for a in A.axes[:-2] for c in a.comps]
    sa = _single_atom(p)
    if sa is not None:
        c, f = sa
        name, idx = f[1], f[2]
        if name in w.partners and len(idx) >= 2:
            r_, c_ = idx[-2], idx[-1]
            if (r_ is row and c_ is col) or (r_ is col and c_ is row):
                Q, ld, sgn = w.partners[name]
                bterms = idx[:-2]
                inv = S.SymArr(A.axes, {(): K.mul(K.num(Fraction(1) / c), K.atom(Q, *bterms, row, col))})
                # det(c*P) = c^n det(P)
                lde = K.mul(K.num(sgn), K.atom(ld, *bterms))
                if c != 1:
                    lde = K.add(lde, K.mul(K.dim(row.sort), K.fn("log", K.num(c))))
                logdet = S.SymArr(A.axes[:-2], {(): lde})
                w.inv_log.append(dict(kind="partner", atom=name))
                return inv.fresh_copy(), logdet.fresh_copy()
    if sa is not None and sa[0] == 1 and sa[1][1].startswith("Inv"):
        # the matrix IS an interned inverse Inv<n> = Inv[X_n]: its inverse is X_n and ln det = -ln det X_n (det_nonsing_inv)
        c, f = sa
        rec = None
        for key_, r_ in w.inv_registry.items():
            if r_["inv"] == f[1] and r_.get("registered"):
                rec, rkey = r_, key_
        idx = f[2]
        if rec is not None and ((idx[-2] is row and idx[-1] is col) or (idx[-2] is col and idx[-1] is row)):
            bterms = idx[:-2]
            mb = dict(zip(rec["batch"], bterms))
            if rkey in w.ld_rules_by_key:
                rule = w.ld_rules_by_key[rkey]
                ldx = K.rename_bound(K.subst(rule["value"], dict(zip(rule["batch"], bterms))))
            else:
                ldx = K.atom(rec["ld"], *bterms)
            logdet = S.SymArr(A.axes[:-2], {(): K.neg(ldx)})
            inv = None
            if want_inverse:
                mm = dict(mb)
                mm[rec["row"]], mm[rec["col"]] = row, col
                inv = S.SymArr(A.axes, {(): K.rename_bound(K.subst(rec["Xexpr"], mm))}).fresh_copy()
            w.hints_used.append("GtvLemmas.det_inv_of_mul_eq_one")
            return inv, logdet.fresh_copy()
    # diagonal matrices (every monomial carries delta(row, col)): GtvLemmas.det_diagonal / inverse of a diagonal
    dg = _diagonal_entry(p, row, col)
    if dg is not None:
        w.hints_used.append("GtvLemmas.det_diagonal")
        r2 = IV(row.sort)
        lde = K.ssum(r2, K.fn("log", K.subst(dg, {row: r2})))
        logdet = S.SymArr(A.axes[:-2], {(): lde})
        inv = None
        if want_inverse:
            inv = S.SymArr(A.axes, {(): K.mul(K.delta(row, col), K.powr(dg, -1))}).fresh_copy()
        w.inv_log.append(dict(kind="diagonal"))
        return inv, logdet.fresh_copy()
    # generic: intern by canonical form
    occurring = [v for v in batch_comps if any(v is u for u in K._free_ivs_of_canon(p))]
    # index variables that are external to the array's axes (vmap rows) are batch parameters of the family as well
    occurring = occurring + [v for v in K._free_ivs_of_canon(p)
                             if not any(v is u for u in batch_comps) and v is not row and v is not col]
    order = occurring + [row, col]
    m = {v: ("H", k) for k, v in enumerate(order)}
    form, _ = K._poly_form(p, m, w.ctx)
    # symmetric matrices: canonical between (row,col) and (col,row)
    m2 = dict(m)
    m2[row], m2[col] = m[col], m[row]
    form2, _ = K._poly_form(p, m2, w.ctx)
    key = min(form, form2, key=repr)
    rule_ld = None
    if key in w.ld_rules_by_key:
        rule = w.ld_rules_by_key[key]
        m_ = dict(zip(rule["batch"], occurring))
        val = K.rename_bound(K.subst(rule["value"], m_))
        w.hints_used.append(rule["lemma"])
        rule_ld = S.SymArr(A.axes[:-2], {(): val}).fresh_copy()
        if not want_inverse:
            return None, rule_ld
    rec = w.inv_registry.get(key)
    if rec is None:
        n = len(w.inv_registry)
        rec = dict(n=n, inv=f"Inv{n}", ld=f"LD{n}", registered=False, nb=len(occurring),
                   symmetric=assume_symmetric or _check_symmetric(w, A, row, col), X=A, terms=len(p))
        w.inv_registry[key] = rec
        w.assumed_pd.append(rec)
    if assume_symmetric:
        rec["symmetric"] = True
    if want_inverse and not rec["registered"]:
        if not rec["symmetric"]:
            raise S.ShimUnsupported("inverse of a matrix that is not provably symmetric")
        K.register_inv(ctx, rec["inv"], A.expr, occurring, row, col)
        rec["registered"] = True
        rec["batch"] = occurring
        rec["row"], rec["col"] = row, col
        rec["Xexpr"] = A.expr
    if "batch_sym" not in rec:
        # symmetry of the matrix family under exchanging two batch indices of the same sort (e.g. Lx + Lk[k] + Lk[l])
        groups = []
        for i_ in range(len(occurring)):
            for j_ in range(i_ + 1, len(occurring)):
                if str(occurring[i_].sort) != str(occurring[j_].sort):
                    continue
                m3 = dict(m)
                m3[occurring[i_]], m3[occurring[j_]] = m[occurring[j_]], m[occurring[i_]]
                f3, _ = K._poly_form(p, m3, w.ctx)
                m4 = dict(m3)
                m4[row], m4[col] = m3[col], m3[row]
                f4, _ = K._poly_form(p, m4, w.ctx)
                if key in (f3, f4):
                    groups.append((i_, j_))
        rec["batch_sym"] = groups
        if groups:
            nb_ = len(occurring)
            ctx.sym[rec["inv"]] = list(ctx.sym.get(rec["inv"], [(nb_, nb_ + 1)])) + groups
            ctx.sym[rec["ld"]] = groups
            if (nb_, nb_ + 1) not in ctx.sym[rec["inv"]]:
                ctx.sym[rec["inv"]].append((nb_, nb_ + 1))
    w.inv_log.append(dict(kind="interned", n=rec["n"], inverse=want_inverse))
    inv = None
    if want_inverse:
        inv = S.SymArr(A.axes, {(): K.atom(rec["inv"], *occurring, row, col)}).fresh_copy()
    logdet = S.SymArr(A.axes[:-2], {(): K.atom(rec["ld"], *occurring)}).fresh_copy()
    if rule_ld is not None:
        logdet = rule_ld
    return inv, logdet


def invert_matrix_contract(A):
    """stand-in for utils.linalg.invert_matrix at call sites (callee replaced by its contract)"""
    w = S.W
    w.count("invert_matrix")
    if not isinstance(A, S.SymArr):
        raise S.ShimUnsupported("invert_matrix of a non-array")
    if A.ndim != 3:
        raise S.ShapeError("invert_matrix expects [R, D, D]")
    A = A.fresh_copy()
    return intern_matrix(w, A, True)


def logdet_contract(A):
    w = S.W
    A = A.fresh_copy()
    return intern_matrix(w, A, False)[1]


def inverse_of(A):
    """spec-side Inv[A]"""
    return intern_matrix(S.W, A.fresh_copy(), True)[0]


def logdet_of(A):
    """spec-side LogDet[A]"""
    return intern_matrix(S.W, A.fresh_copy(), False)[1]


def cholesky_contract(A):
    w = S.W
    A = A.fresh_copy()
    row, col = _matrix_axes(A)
    p = K.normalize(A.expr, w.ctx)
    batch_comps = [c for a in A.axes[:-2] for c in a.comps]
    occurring = [v for v in batch_comps if any(v is u for u in K._free_ivs_of_canon(p))]
    order = occurring + [row, col]
    m = {v: ("H", k) for k, v in enumerate(order)}
    form, _ = K._poly_form(p, m, w.ctx)
    reg = w.__dict__.setdefault("chol_registry", {})
    rec = reg.get(form)
    if rec is None:
        rec = dict(n=len(reg), name=f"Chol{len(reg)}", X=A)
        reg[form] = rec
    return S.SymArr(A.axes, {(): K.atom(rec["name"], *occurring, row, col)}).fresh_copy()


def matrix_key(w, A):
    """canonical interning key of a (non-block) matrix array, with the list of batch IVs it depends on"""
    A = A.fresh_copy()
    row, col = _matrix_axes(A)
    p = K.normalize(A.expr, w.ctx)
    batch_comps = [c for a in A.axes[:-2] for c in a.comps]
    occurring = [v for v in batch_comps if any(v is u for u in K._free_ivs_of_canon(p))]
    order = occurring + [row, col]
    m = {v: ("H", k) for k, v in enumerate(order)}
    form, _ = K._poly_form(p, m, w.ctx)
    m2 = dict(m)
    m2[row], m2[col] = m[col], m[row]
    form2, _ = K._poly_form(p, m2, w.ctx)
    return min(form, form2, key=repr), A, occurring


def _scalar_key(w, A):
    """canonical key of a 1x1 matrix family (its single entry as a function of the batch indices)"""
    A = A.fresh_copy()
    p = K.normalize(A.expr, w.ctx)
    batch_comps = [c for a in A.axes[:-2] for c in a.comps]
    occurring = [v for v in batch_comps if any(v is u for u in K._free_ivs_of_canon(p))]
    form, _ = K._poly_form(p, {v: ("H", k) for k, v in enumerate(occurring)}, w.ctx)
    return form, A, occurring


def add_logdet_rule(w, matrix, value, lemma):
    """LogDet[matrix] := value, justified by a lemma of the Lean-checked library (gtv/lemmas.py builds both sides)"""
    try:
        key, A, occurring = matrix_key(w, matrix)
    except ScalarMatrix:
        # 1x1 matrix: ln det is the logarithm of the entry; the rule rewrites that logarithm
        key, A, occurring = _scalar_key(w, matrix)
        key = ("scalar", key)
    value = S._lift(value)
    # align value's batch axes with the matrix's batch axes
    bm = {}
    vb = value.fresh_copy()
    if vb.ndim != A.ndim - 2:
        raise S.ShapeError("logdet rule: value rank does not match the matrix batch rank")
    for va, ma in zip(vb.axes, A.axes[:-2]):
        if va.unit:
            continue
        if va.sorts() != ma.sorts():
            raise S.ShapeError("logdet rule: batch layout mismatch")
        bm.update(zip(va.comps, ma.comps))
    w.ld_rules_by_key[key] = dict(batch=occurring, value=K.subst(vb.expr, bm), lemma=lemma)
