"""Scratch prototype: index-notation tensor polynomial normal form (dimension generic)."""
from fractions import Fraction
import itertools

_ctr = itertools.count()


class IV:
    """index variable of a sort (sort = name of a dimension symbol, or ('n',k) concrete)"""
    __slots__ = ("id", "sort")

    def __init__(self, sort):
        self.id = next(_ctr)
        self.sort = sort

    def __repr__(self):
        return f"{self.sort}{self.id}"


class IC:
    """concrete index constant"""
    __slots__ = ("k",)

    def __init__(self, k):
        self.k = k

    def __repr__(self):
        return f"#{self.k}"

    def __eq__(self, o):
        return isinstance(o, IC) and o.k == self.k

    def __hash__(self):
        return hash(("IC", self.k))


def num(x):
    return ("num", Fraction(x))


def atom(name, *idx):
    return ("atom", name, tuple(idx))


def delta(i, j):
    return ("delta", i, j)


def add(*es):
    return ("add", tuple(es))


def mul(*es):
    return ("mul", tuple(es))


def ssum(iv, e):
    return ("sum", iv, e)


def powr(e, n):
    return ("pow", e, n)


def fn(name, e):
    return ("fn", name, e)


def dim(sort):
    return ("dim", sort)


def subst(e, m):
    k = e[0]
    if k in ("num", "dim"):
        return e
    if k == "atom":
        return ("atom", e[1], tuple(m.get(i, i) if isinstance(i, IV) else i for i in e[2]))
    if k == "delta":
        return ("delta", m.get(e[1], e[1]) if isinstance(e[1], IV) else e[1],
                m.get(e[2], e[2]) if isinstance(e[2], IV) else e[2])
    if k in ("add", "mul"):
        return (k, tuple(subst(x, m) for x in e[1]))
    if k == "sum":
        assert e[1] not in m
        return ("sum", e[1], subst(e[2], m))
    if k == "pow":
        return ("pow", subst(e[1], m), e[2])
    if k == "fn":
        return ("fn", e[1], subst(e[2], m))
    raise ValueError(k)


# ---------------------------------------------------------------- normal form
# Poly: dict mono -> Fraction.  During computation a "raw monomial" is
# (factors: tuple of factor, bound: frozenset of IV).  factor:
#   ('A', name, idxs, power)   atom
#   ('D', i, j)                delta
#   ('N', sort, power)         dimension scalar
#   ('F', fname, canon_poly_key, holes(tuple of index terms), power)   function atom

class Ctx:
    def __init__(self):
        self.sym = {}      # atom name -> list of slot groups that are symmetric e.g. [(1,2)]
        self.inv_pairs = []  # (P,Q): P[a,i,j] Q[a,j,k] summed over j = delta(i,k); matrix slots = last two
        self.stats = {"canon": 0}


def pmul(p, q):
    r = {}
    for (f1, b1), c1 in p.items():
        for (f2, b2), c2 in q.items():
            # rename bound vars of second if clash
            if b1 & b2:
                m = {v: IV(v.sort) for v in b2 if v in b1}
                f2 = tuple(_fsubst(f, m) for f in f2)
                b2 = frozenset(m.get(v, v) for v in b2)
            k = (f1 + f2, b1 | b2)
            r[k] = r.get(k, 0) + c1 * c2
    return r


def padd(p, q):
    r = dict(p)
    for k, c in q.items():
        r[k] = r.get(k, 0) + c
    return r


def _isub(i, m):
    return m.get(i, i) if isinstance(i, IV) else i


def _fsubst(f, m):
    if f[0] == "A":
        return ("A", f[1], tuple(_isub(i, m) for i in f[2]), f[3])
    if f[0] == "D":
        return ("D", _isub(f[1], m), _isub(f[2], m))
    if f[0] == "N":
        return f
    if f[0] == "F":
        return ("F", f[1], f[2], tuple(_isub(i, m) for i in f[3]), f[4])
    raise ValueError(f)


def raw(e, ctx):
    """expression -> raw poly (not canonical)"""
    k = e[0]
    if k == "num":
        return {((), frozenset()): e[1]} if e[1] != 0 else {}
    if k == "dim":
        return {((("N", e[1], 1),), frozenset()): Fraction(1)}
    if k == "atom":
        return {((("A", e[1], e[2], 1),), frozenset()): Fraction(1)}
    if k == "delta":
        return {((("D", e[1], e[2]),), frozenset()): Fraction(1)}
    if k == "add":
        r = {}
        for x in e[1]:
            r = padd(r, raw(x, ctx))
        return r
    if k == "mul":
        r = {((), frozenset()): Fraction(1)}
        for x in e[1]:
            r = pmul(r, raw(x, ctx))
        return r
    if k == "sum":
        p = raw(e[2], ctx)
        r = {}
        for (f, b), c in p.items():
            v = IV(e[1].sort)
            m = {e[1]: v}
            kk = (tuple(_fsubst(x, m) for x in f), b | {v})
            r[kk] = r.get(kk, 0) + c
        return r
    if k == "pow":
        n = e[2]
        if n >= 0:
            r = {((), frozenset()): Fraction(1)}
            base = raw(e[1], ctx)
            for _ in range(n):
                r = pmul(r, base)
            return r
        # negative power: function atom 'inv' of canonical poly
        return _fnatom("inv", e[1], ctx, -n)
    if k == "fn":
        return _fnatom(e[1], e[2], ctx, 1)
    raise ValueError(k)


def _free_ivs_of_poly(p):
    s = []
    seen = set()
    for (f, b), c in p.items():
        for x in f:
            for i in _fidx(x):
                if isinstance(i, IV) and i not in b and i not in seen:
                    seen.add(i)
                    s.append(i)
    return s


def _fidx(x):
    if x[0] == "A":
        return x[2]
    if x[0] == "D":
        return (x[1], x[2])
    if x[0] == "F":
        return x[3]
    return ()


def _fnatom(fname, arg, ctx, power):
    p = normalize(arg, ctx)
    # constant folding
    if fname == "exp" and not p:
        return {((), frozenset()): Fraction(1)}
    if fname == "log" and len(p) == 1 and list(p.items())[0] == (((), 0), Fraction(1)):
        return {}
    frees = sorted(_free_ivs_of_poly_c(p), key=lambda v: v.id)
    best = None
    for perm in itertools.permutations(range(len(frees))):
        m = {frees[i]: ("H", perm[i]) for i in range(len(frees))}
        key, form = _poly_key(p, m)
        if best is None or repr(key) < best[0]:
            best = (repr(key), perm, form)
    _, perm, key = best
    holes = [None] * len(frees)
    for i, v in enumerate(frees):
        holes[perm[i]] = v
    return {((("F", fname, key, tuple(holes), power),), frozenset()): Fraction(1)}


def _free_ivs_of_poly_c(p):
    """free IVs in canonical poly (canonical monos store bound as ('B',k))"""
    seen = []
    for (f, nb), c in p.items():
        for x in f:
            for i in _fidx(x):
                if isinstance(i, IV) and i not in seen:
                    seen.append(i)
    return seen


def _poly_key(p, m):
    """returns (encoded_key, factor_form) of poly p with free vars replaced by holes per m"""
    items = []
    for (f, nb), c in p.items():
        ff = tuple(sorted((_fsubst_h(x, m) for x in f), key=_fkey))
        items.append((tuple(_fkey(x) for x in ff), nb, c, ff))
    items.sort(key=lambda t: repr(t[:3]))
    return tuple(t[:3] for t in items), tuple((t[3], t[1], t[2]) for t in items)


def _fsubst_h(f, m):
    def s(i):
        return m.get(i, i) if isinstance(i, IV) else i
    if f[0] == "A":
        return ("A", f[1], tuple(s(i) for i in f[2]), f[3])
    if f[0] == "D":
        return ("D", s(f[1]), s(f[2]))
    if f[0] == "F":
        return ("F", f[1], f[2], tuple(s(i) for i in f[3]), f[4])
    return f


def _ikey(i):
    if isinstance(i, IV):
        return (2, i.sort if isinstance(i.sort, str) else repr(i.sort), i.id)
    if isinstance(i, IC):
        return (0, "", i.k)
    if isinstance(i, tuple):  # ('B',k,sort) / ('H',k)
        return (1, i[0], i[1])
    raise ValueError(i)


def _fkey(f):
    if f[0] == "A":
        return (0, f[1], f[3], tuple(_ikey(i) for i in f[2]))
    if f[0] == "D":
        return (1, "", 1, tuple(sorted(_ikey(i) for i in (f[1], f[2]))))
    if f[0] == "N":
        return (2, repr(f[1]), f[2], ())
    if f[0] == "F":
        return (3, f[1] + repr(tuple((tuple(_fkey(x) for x in ff), nb, c) for ff, nb, c in f[2])), f[4], tuple(_ikey(i) for i in f[3]))


def normalize(e, ctx):
    p = raw(e, ctx)
    return canon_poly(p, ctx)


def canon_poly(p, ctx):
    out = {}
    work = list(p.items())
    while work:
        (f, b), c = work.pop()
        if c == 0:
            continue
        res = simplify_mono(list(f), set(b), ctx)
        if res is None:
            continue
        if isinstance(res, dict):  # rewritten into a poly: re-process
            for k2, c2 in res.items():
                work.append((k2, c * c2))
            continue
        f2, b2, coef = res
        key = canon_mono(f2, b2, ctx)
        out[key] = out.get(key, 0) + c * coef
    return {k: v for k, v in out.items() if v != 0}


def _occ(f, v):
    n = 0
    for x in f:
        for i in _fidx(x):
            if i is v:
                n += 1
    return n


def simplify_mono(f, b, ctx):
    """delta elimination, inverse-pair contraction, merge powers.
    returns (factors, bound, coef) or None (zero) or dict (poly) if a rewrite branches"""
    changed = True
    coef = Fraction(1)
    while changed:
        changed = False
        # deltas
        for n, x in enumerate(f):
            if x[0] != "D":
                continue
            i, j = x[1], x[2]
            if isinstance(i, IC) and isinstance(j, IC):
                if i.k != j.k:
                    return None
                f.pop(n)
                changed = True
                break
            if i is j:
                if i in b and _occ(f, i) == 2:
                    f.pop(n)
                    b.discard(i)
                    f.append(("N", i.sort, 1))
                    changed = True
                    break
                if i not in b:
                    f.pop(n)
                    changed = True
                    break
                # bound & appears elsewhere: delta(i,i)=1
                f.pop(n)
                changed = True
                break
            # substitute a bound var
            tgt = None
            if isinstance(i, IV) and i in b:
                tgt = (i, j)
            elif isinstance(j, IV) and j in b:
                tgt = (j, i)
            if tgt:
                f.pop(n)
                m = {tgt[0]: tgt[1]}
                f[:] = [_fsubst(y, m) for y in f]
                b.discard(tgt[0])
                changed = True
                break
        if changed:
            continue
        # bound var with no occurrence -> dimension factor
        for v in list(b):
            if _occ(f, v) == 0:
                b.discard(v)
                f.append(("N", v.sort, 1))
                changed = True
        if changed:
            continue
        # inverse pairs
        for (P, Q) in ctx.inv_pairs:
            hit = _find_inv(f, b, P, Q)
            if hit:
                n1, n2, i, k, jv = hit
                for n in sorted((n1, n2), reverse=True):
                    f.pop(n)
                b.discard(jv)
                f.append(("D", i, k))
                changed = True
                break
        if changed:
            continue
        r = apply_inv_rel(f, b, ctx)
        if r is not None:
            return r
        # F-atom algebra: inv(p)^a with power merging handled in canon (merge identical factors)
    # merge identical factors -> powers
    merged = {}
    order = []
    for x in f:
        if x[0] == "A":
            k = ("A", x[1], x[2])
            pw = x[3]
        elif x[0] == "N":
            k = ("N", x[1])
            pw = x[2]
        elif x[0] == "F":
            k = ("F", x[1], x[2], x[3])
            pw = x[4]
        else:
            k = x
            pw = 1
        if k not in merged:
            merged[k] = 0
            order.append(k)
        merged[k] += pw
    f2 = []
    for k in order:
        pw = merged[k]
        if pw == 0 and k[0] != "D":
            continue
        if k[0] == "A":
            f2.append(("A", k[1], k[2], pw))
        elif k[0] == "N":
            f2.append(("N", k[1], pw))
        elif k[0] == "F":
            f2.append(("F", k[1], k[2], k[3], pw))
        else:
            f2.append(k)
    return f2, b, coef


def _find_inv(f, b, P, Q):
    for n1, x in enumerate(f):
        if x[0] != "A" or x[1] != P or x[3] != 1:
            continue
        for n2, y in enumerate(f):
            if n2 == n1 or y[0] != "A" or y[1] != Q or y[3] != 1:
                continue
            if x[2][:-2] != y[2][:-2]:
                # batch indices must be identical objects/terms
                if not all((p is q) or (isinstance(p, IC) and p == q) for p, q in zip(x[2][:-2], y[2][:-2])):
                    continue
            xs, ys = x[2][-2:], y[2][-2:]
            for a in (0, 1):
                for c in (0, 1):
                    j = xs[a]
                    if isinstance(j, IV) and j is ys[c] and j in b and _occ(f, j) == 2:
                        return n1, n2, xs[1 - a], ys[1 - c], j
    return None


def canon_mono(f, b, ctx):
    """canonical key for monomial up to bound var renaming and atom slot symmetries"""
    ctx.stats["canon"] += 1
    bl = sorted(b, key=lambda v: v.id)
    if not bl:
        return (_sortf(f, {}, ctx), 0)
    # signature classes for pruning
    def sig(v):
        s = []
        for x in f:
            for pos, i in enumerate(_fidx(x)):
                if i is v:
                    name = x[1] if x[0] in ("A", "F") else "δ"
                    symg = ctx.sym.get(name, []) if x[0] == "A" else []
                    p = pos
                    for g in symg:
                        if pos in g:
                            p = g[0]
                    s.append((x[0], str(name) if x[0] != "F" else x[1], p))
        return (repr(v.sort), tuple(sorted(s)))
    classes = {}
    for v in bl:
        classes.setdefault(sig(v), []).append(v)
    keys = sorted(classes)
    groups = [classes[k] for k in keys]
    best = None
    offs = []
    o = 0
    for g in groups:
        offs.append(o)
        o += len(g)
    for perms in itertools.product(*[itertools.permutations(range(len(g))) for g in groups]):
        m = {}
        for g, pm, off in zip(groups, perms, offs):
            for v, pi in zip(g, pm):
                m[v] = ("B", off + pi, repr(v.sort) if not isinstance(v.sort,str) else v.sort)
        cand = _sortf(f, m, ctx)
        key = tuple(_fkey(x) for x in cand)
        if best is None or key < best[0]:
            best = (key, cand)
    return (best[1], len(bl))


def _sortf(f, m, ctx):
    out = []
    for x in f:
        y = _fsubst_h(x, m)
        if y[0] == "A":
            idx = list(y[2])
            for g in ctx.sym.get(y[1], []):
                vals = sorted((idx[p] for p in g), key=_ikey)
                for p, v in zip(g, vals):
                    idx[p] = v
            y = ("A", y[1], tuple(idx), y[3])
        elif y[0] == "D":
            a, c = sorted((y[1], y[2]), key=_ikey)
            y = ("D", a, c)
        out.append(y)
    return tuple(sorted(out, key=_fkey))


def is_zero(e, ctx):
    return not normalize(e, ctx)


def show(p):
    lines = []
    for (f, nb), c in sorted(p.items(), key=repr):
        lines.append(f"  {c} * " + " ".join(_show_f(x) for x in f) + (f"   [sum over {nb}]" if nb else ""))
    return "\n".join(lines) if lines else "  0"


def _show_i(i):
    if isinstance(i, tuple):
        return f"{i[0].lower()}{i[1]}"
    return repr(i)


def _show_f(x):
    if x[0] == "A":
        return f"{x[1]}[{','.join(_show_i(i) for i in x[2])}]" + (f"^{x[3]}" if x[3] != 1 else "")
    if x[0] == "D":
        return f"δ({_show_i(x[1])},{_show_i(x[2])})"
    if x[0] == "N":
        return f"|{x[1]}|" + (f"^{x[2]}" if x[2] != 1 else "")
    if x[0] == "F":
        return f"{x[1]}<{hash(x[2]) % 9973}>({','.join(_show_i(i) for i in x[3])})" + (f"^{x[4]}" if x[4] != 1 else "")


# ------------------------------------------------------------ denominators
def poly_to_expr(p, holes_map):
    """canonical poly (with ('H',k) holes and ('B',k,sort) bound names) -> Expr"""
    terms = []
    for (f, nb), c in p.items():
        bm = {}
        def ix(i):
            if isinstance(i, tuple) and i[0] == "H":
                return holes_map[i[1]]
            if isinstance(i, tuple) and i[0] == "B":
                if i not in bm:
                    bm[i] = IV(i[2])
                return bm[i]
            return i
        fs = [("num", c)]
        for x in f:
            if x[0] == "A":
                fs.append(("pow", ("atom", x[1], tuple(ix(i) for i in x[2])), x[3]))
            elif x[0] == "D":
                fs.append(("delta", ix(x[1]), ix(x[2])))
            elif x[0] == "N":
                fs.append(("pow", ("dim", x[1]), x[2]))
            elif x[0] == "F":
                inner = poly_to_expr({(ff, nb): c for ff, nb, c in x[2]}, {k: ix(h) for k, h in enumerate(x[3])})
                if x[1] == "inv":
                    fs.append(("pow", inner, -x[4]))
                else:
                    fs.append(("pow", ("fn", x[1], inner), x[4]))
        e = ("mul", tuple(fs))
        for v in bm.values():
            e = ("sum", v, e)
        terms.append(e)
    return ("add", tuple(terms))


def clear_denominators(p, ctx):
    """multiply poly p by the denominators of its inv-atoms (assumed nonzero); returns poly without them
    (only for inv atoms whose holes are free in every monomial where they occur)"""
    for _ in range(10):
        target = None
        for (f, nb), c in p.items():
            for x in f:
                if x[0] == "F" and x[1] == "inv" and all(not (isinstance(h, tuple) and h[0] == "B") for h in x[3]):
                    target = (x[2], x[3])
                    break
            if target:
                break
        if not target:
            return p
        key, holes = target
        E = 0
        for (f, nb), c in p.items():
            for x in f:
                if x[0] == "F" and x[1] == "inv" and x[2] == key and x[3] == holes:
                    E = max(E, x[4])
        P = poly_to_expr({(ff, nb): c for ff, nb, c in key}, dict(enumerate(holes)))
        terms = []
        for (f, nb), c in p.items():
            e = 0
            rest = []
            for x in f:
                if x[0] == "F" and x[1] == "inv" and x[2] == key and x[3] == holes:
                    e = x[4]
                else:
                    rest.append(x)
            mono = poly_to_expr({(tuple(rest), nb): c}, {})
            terms.append(("mul", (mono, ("pow", P, E - e))))
        p = normalize(("add", tuple(terms)), ctx)
    return p


# ------------------------------------------------------------ Inv[X] for compound X (prototype round 2)
def register_inv(ctx, name, X, batch, row, col, head=0):
    """name: atom name of Inv[X]; X: Expr with free IVs batch+[row,col]."""
    p = normalize(X, ctx)
    terms = []
    for (f, nb), c in sorted(p.items(), key=lambda kv: repr(tuple(_fkey(x) for x in kv[0][0]))):
        terms.append((c, f))
    if not hasattr(ctx, "inv_rel"):
        ctx.inv_rel = {}
    ctx.inv_rel[name] = dict(terms=terms, batch=list(batch), row=row, col=col, head=head)
    ctx.sym[name] = [(len(batch), len(batch) + 1)]
    return len(terms)


def _inst(fpat, m):
    """instantiate pattern factors with mapping m (IV or ('B',..) -> index term); unmapped B's get fresh IVs"""
    newb = []
    def ix(i):
        if isinstance(i, IV) or (isinstance(i, tuple) and i[0] == "B"):
            if i in m:
                return m[i]
            if isinstance(i, tuple):
                v = IV(i[2]); m[i] = v; newb.append(v)
                return v
        return i
    out = []
    for x in fpat:
        if x[0] == "A":
            out.append(("A", x[1], tuple(ix(i) for i in x[2]), x[3]))
        elif x[0] == "D":
            out.append(("D", ix(x[1]), ix(x[2])))
        elif x[0] == "F":
            out.append(("F", x[1], x[2], tuple(ix(i) for i in x[3]), x[4]))
        else:
            out.append(x)
    return out, newb


def _slot_perms(name, n, ctx):
    import itertools as it
    groups = ctx.sym.get(name, [])
    perms = [list(range(n))]
    for g in groups:
        new = []
        for base in perms:
            for pg in it.permutations(g):
                q = list(base)
                for src, dst in zip(g, pg):
                    q[src] = base[dst]
                new.append(q)
        perms = new
    seen = []
    for q in perms:
        if q not in seen:
            seen.append(q)
    return seen


def _match(pat, f, used, m, ctx):
    """backtracking match of pattern atom list into monomial factors f; yields (used, m)"""
    if not pat:
        yield used, m
        return
    x = pat[0]
    assert x[0] == "A" and x[3] == 1, "prototype: heads must be products of simple atoms"
    for n, y in enumerate(f):
        if n in used or y[0] != "A" or y[1] != x[1] or y[3] != 1:
            continue
        for perm in _slot_perms(x[1], len(x[2]), ctx):
            m2 = dict(m)
            ok = True
            for pos, pi in enumerate(x[2]):
                yi = y[2][perm[pos]]
                if isinstance(pi, IC):
                    if pi != yi:
                        ok = False; break
                    continue
                if pi in m2:
                    if m2[pi] is not yi and not (isinstance(yi, IC) and m2[pi] == yi):
                        ok = False; break
                else:
                    m2[pi] = yi
            if ok:
                yield from _match(pat[1:], f, used | {n}, m2, ctx)


def apply_inv_rel(f, b, ctx):
    rel = getattr(ctx, "inv_rel", {})
    for n0, y in enumerate(f):
        if y[0] != "A" or y[1] not in rel or y[3] != 1:
            continue
        R = rel[y[1]]
        nbt = len(R["batch"])
        for (cpos, opos) in ((nbt + 1, nbt), (nbt, nbt + 1)):
            j, other = y[2][cpos], y[2][opos]
            if not (isinstance(j, IV) and j in b and _occ(f, j) == 2):
                continue
            ch, head = R["terms"][R["head"]]
            m0 = {bv: bi for bv, bi in zip(R["batch"], y[2][:nbt])}
            m0[R["row"]] = j
            for used, m in _match(list(head), f, frozenset([n0]), m0, ctx):
                # internal bound pattern vars must map to distinct monomial-bound IVs occurring only in matched atoms
                internal = [k for k in m if isinstance(k, tuple) and k[0] == "B"]
                tgt = [m[k] for k in internal]
                if len(set(map(id, tgt))) != len(tgt) or any(not (isinstance(t, IV) and t in b) for t in tgt):
                    continue
                matched = [f[n] for n in used if n != n0]
                okc = True
                for t in tgt:
                    inside = sum(1 for x in matched for i in _fidx(x) if i is t)
                    if inside != _occ(f, t):
                        okc = False
                if not okc or R["col"] not in m:
                    continue
                kb = m[R["col"]]
                rest = [x for n, x in enumerate(f) if n not in used]
                nb = set(b) - {j} - set(tgt)
                out = {}
                k1 = (tuple(rest) + (("D", other, kb),), frozenset(nb))
                out[k1] = out.get(k1, 0) + Fraction(1) / ch
                for ti, (ct, ft) in enumerate(R["terms"]):
                    if ti == R["head"]:
                        continue
                    j2 = IV(j.sort)
                    mm = {bv: bi for bv, bi in zip(R["batch"], y[2][:nbt])}
                    mm[R["row"]] = j2; mm[R["col"]] = kb
                    inst, newb = _inst(ft, mm)
                    yidx = list(y[2]); yidx[cpos] = j2
                    k2 = (tuple(rest) + (("A", y[1], tuple(yidx), 1),) + tuple(inst), frozenset(nb | {j2} | set(newb)))
                    out[k2] = out.get(k2, 0) - ct / ch
                return out
    return None
