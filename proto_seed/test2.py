import sys, time, itertools, types
sys.path.insert(0, '/tmp/proto')
import kernel as K, symnp
from symnp import fresh
from kernel import IV
import gaussian_toolbox.factor as F, gaussian_toolbox.measure as Mm
F.jnp = symnp; Mm.jnp = symnp
ctx = K.Ctx(); ctx.sym = {"Sig": [(1, 2)]}

class FakeSelf:  # only mu/Sigma/get_trace/_expectation_* of the real class are used
    mu = fresh("mu", "R", "D"); Sigma = fresh("Sig", "R", "D", "D")
    get_trace = staticmethod(Mm.GaussianMeasure.get_trace)
    _expectation_general_linear = Mm.GaussianMeasure._expectation_general_linear
    _expectation_xxT = Mm.GaussianMeasure._expectation_xxT
me = FakeSelf()
for n in ("_expectation_general_linear", "_expectation_xxT"):
    setattr(me, n, types.MethodType(getattr(Mm.GaussianMeasure, n), me))

def pairings(lst):
    if not lst: yield []; return
    a = lst[0]
    for i in range(1, len(lst)):
        for rest in pairings(lst[1:i] + lst[i+1:]):
            yield [(a, lst[i])] + rest

def wick(forms, r):
    """forms: list of (Aname, aname, out_index IV).  E[prod_t (A_t x + a_t)[i_t]] for x~N(mu[r],Sig[r])"""
    n = len(forms); terms = []
    def mean(t):
        An, an, i = forms[t]; d = IV("D")
        return K.add(K.ssum(d, K.mul(K.atom(An, r, i, d), K.atom("mu", r, d))), K.atom(an, r, i))
    def cov(s, t):
        d1, d2 = IV("D"), IV("D")
        return K.ssum(d1, K.ssum(d2, K.mul(K.atom(forms[s][0], r, forms[s][2], d1), K.atom("Sig", r, d1, d2), K.atom(forms[t][0], r, forms[t][2], d2))))
    for k in range(0, n + 1, 2):
        for S in itertools.combinations(range(n), k):
            rest = [t for t in range(n) if t not in S]
            for pr in pairings(list(S)):
                terms.append(K.mul(*([mean(t) for t in rest] + [cov(s, t) for s, t in pr] + [K.num(1)])))
    return K.add(*terms)

def check(name, method, shapes, out_spec):
    args = []
    for (An, an, osort) in shapes:
        args += [fresh(An, "R", osort, "D"), fresh(an, "R", osort)]
    t0 = time.time()
    res = method(me, *args)                        # REAL CODE
    r = res.axes[0].comps[0]
    outs = [ax.comps[0] for ax in res.axes[1:]]
    spec = out_spec(r, outs)
    nf = K.normalize(K.add(res.expr, K.mul(K.num(-1), spec)), ctx)
    print(f"{name}: shape {res.shape} identical-to-Wick={not nf}  monomials_in_diff={len(nf)}  t={time.time()-t0:.2f}s")
    return nf

# (Ax+a)(Bx+b)'(Cx+c)(Dx+d)' -> [R,K,M], B,C share L
def spec_qo(r, outs):
    k, m = outs; l = IV("L")
    return K.ssum(l, wick([("A", "a", k), ("B", "b", l), ("C", "c", l), ("Dm", "d", m)], r))
check("quartic_outer", Mm.GaussianMeasure._expectation_general_quartic_outer,
      [("A", "a", "K"), ("B", "b", "L"), ("C", "c", "L"), ("Dm", "d", "M")], spec_qo)
def spec_qi(r, outs):
    k, l = IV("K"), IV("L")
    return K.ssum(k, K.ssum(l, wick([("A", "a", k), ("B", "b", k), ("C", "c", l), ("Dm", "d", l)], r)))
check("quartic_inner", Mm.GaussianMeasure._expectation_general_quartic_inner,
      [("A", "a", "K"), ("B", "b", "K"), ("C", "c", "L"), ("Dm", "d", "L")], spec_qi)
def spec_ci(r, outs):
    (k,) = outs; l = IV("L")
    return K.ssum(l, wick([("A", "a", k), ("B", "b", l), ("C", "c", l)], r))
check("cubic_inner", Mm.GaussianMeasure._expectation_general_cubic_inner,
      [("A", "a", "K"), ("B", "b", "L"), ("C", "c", "L")], spec_ci)
def spec_co(r, outs):
    (l,) = outs; k = IV("K")
    return K.ssum(k, wick([("A", "a", k), ("B", "b", k), ("C", "c", l)], r))
check("cubic_outer", Mm.GaussianMeasure._expectation_general_cubic_outer,
      [("A", "a", "K"), ("B", "b", "K"), ("C", "c", "L")], spec_co)
def spec_qdo(r, outs):
    k, l = outs
    return wick([("A", "a", k), ("B", "b", l)], r)
check("quadratic_outer", Mm.GaussianMeasure._expectation_general_quadratic_outer,
      [("A", "a", "K"), ("B", "b", "L")], spec_qdo)
def spec_qdi(r, outs):
    k = IV("K")
    return K.ssum(k, wick([("A", "a", k), ("B", "b", k)], r))
check("quadratic_inner", Mm.GaussianMeasure._expectation_general_quadratic_inner,
      [("A", "a", "K"), ("B", "b", "K")], spec_qdi)

# ---- mutation: flip a sign in the real source of quartic_outer, re-exec, must be refuted
import inspect, textwrap
src = textwrap.dedent(inspect.getsource(Mm.GaussianMeasure._expectation_general_quartic_outer))
mut = src.replace("(ASigmaD - AmuaDmud)", "(ASigmaD + AmuaDmud)")
assert mut != src
ns = dict(Mm.__dict__); exec(mut, ns)
nf = check("quartic_outer MUTANT(sign)", ns["_expectation_general_quartic_outer"],
      [("A", "a", "K"), ("B", "b", "L"), ("C", "c", "L"), ("Dm", "d", "M")], spec_qo)
print(K.show(nf)[:600])
mut = src.replace('"abc,acd->abd", ASigmaC + AmuaCmuc, BSigmaD + BmubDmud', '"abc,acd->abd", ASigmaC + AmuaCmuc, jnp.swapaxes(BSigmaD + BmubDmud,1,2)')
print(ctx.stats)
