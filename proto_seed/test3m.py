import sys, time
sys.path.insert(0, '/tmp/proto')
import kernel as K, symnp
from symnp import fresh, SymArr, Axis
from kernel import IV
import gaussian_toolbox.factor as F, gaussian_toolbox.measure as Mm, gaussian_toolbox.pdf as P, gaussian_toolbox.conditional as C

ctx = K.Ctx()
ctx.sym = {"Sx": [(1, 2)], "Lx": [(1, 2)], "Sc": [(0, 1)], "Lc": [(0, 1)]}
ctx.inv_pairs = [("Sx", "Lx"), ("Lx", "Sx"), ("Sc", "Lc"), ("Lc", "Sc")]
for mod in (F, Mm, P, C):
    mod.jnp = symnp

inv_log = []
def invert_matrix_contract(A):
    """contract stub of utils.linalg.invert_matrix: returns (Inv[A], LogDet[A]) as fresh atoms + relation"""
    A = A.fresh_copy()
    k = len(inv_log)
    name, ld = f"Inv{k}", f"LD{k}"
    batch = [c for ax in A.axes[:-2] for c in ax.comps]
    row, col = A.axes[-2].comps[0], A.axes[-1].comps[0]
    K.register_inv(ctx, name, A.expr, batch, row, col)
    inv_log.append((name, ld, A))
    inv = SymArr(A.axes, K.atom(name, *batch, row, col)).fresh_copy()
    logdet = SymArr(A.axes[:-2], K.atom(ld, *batch)).fresh_copy()
    return inv, logdet
for mod in (Mm, P, C):
    mod.invert_matrix = invert_matrix_contract

# ---- well-formed generators ------------------------------------------------
# p_x: batch Rx generic; wf by construction: Lambda = Inv[Sx] (pair atoms), ln_det_Sigma = ldSx
p_x = P.GaussianPDF(Sigma=fresh("Sx", "Rx", "Dx", "Dx"), mu=fresh("mx", "Rx", "Dx"),
                    Lambda=fresh("Lx", "Rx", "Dx", "Dx"), ln_det_Sigma=fresh("ldSx", "Rx"))      # REAL ctor
# cond: R=1 (unit batch)
cond = C.ConditionalGaussianPDF(M=fresh("M", 1, "Dy", "Dx"), b=fresh("b", 1, "Dy"), Sigma=fresh("Sc", 1, "Dy", "Dy"),
                                Lambda=fresh("Lc", 1, "Dy", "Dy"), ln_det_Sigma=fresh("ldSc", 1))  # REAL ctor
t0 = time.time()
import inspect, textwrap, types, os
if os.environ.get("MUT"):
    src = textwrap.dedent(inspect.getsource(C.ConditionalGaussianPDF.affine_conditional_transformation))
    mut = {"1": ('b_x = -jnp.einsum("abcd,ad->abc", M_x, self.b)', 'b_x = jnp.einsum("abcd,ad->abc", M_x, self.b)'),
           "2": ('"abcd,bd->abc", Sigma_x.reshape((self.R, p_x.R, p_x.D, p_x.D)), p_x.nu', '"abcd,bc->abd", Sigma_x.reshape((self.R, p_x.R, p_x.D, p_x.D)), p_x.nu'),
           "3": ('M_Lambda_y = jnp.einsum("abc,abd->acd", self.M, self.Lambda)', 'M_Lambda_y = jnp.einsum("abc,abd->acd", self.M, self.Sigma)')}[os.environ["MUT"]]
    assert mut[0] in src
    ns = dict(C.__dict__); exec(src.replace(*mut), ns)
    cond.affine_conditional_transformation = types.MethodType(ns["affine_conditional_transformation"], cond)
post = cond.affine_conditional_transformation(p_x)      # REAL
p_y = cond.affine_marginal_transformation(p_x)          # REAL (constructs GaussianPDF -> invert_matrix contract)
print("post.M", post.M.shape, "post.Sigma", post.Sigma.shape, "p_y.Sigma", p_y.Sigma.shape, "Inv atoms:", [(n, len(ctx.inv_rel[n]['terms'])) for n, _, _ in inv_log])

x = fresh("x", "Nx", "Dx"); y = fresh("y", "Ny", "Dy")
lhs1 = post.condition_on_x(y).evaluate_ln(x)     # [(Rx*Ny), Nx]   REAL
lhs2 = p_y.evaluate_ln(y)                        # [Rx, Ny]        REAL
rhs1 = cond.condition_on_x(x).evaluate_ln(y)     # [(1*Nx), Ny]    REAL
rhs2 = p_x.evaluate_ln(x)                        # [Rx, Nx]        REAL
print("shapes", lhs1.shape, lhs2.shape, rhs1.shape, rhs2.shape)
# align on common index variables r, ny, nx
r, ny, nx = IV("Rx"), IV("Ny"), IV("Nx")
def at(arr, *ivs):
    comps = [c for ax in arr.axes for c in ax.comps]
    assert [c.sort for c in comps] == [v.sort for v in ivs], ([c.sort for c in comps], ivs)
    return K.subst(arr.expr, dict(zip(comps, ivs)))
diff = K.add(at(lhs1, r, ny, nx), at(lhs2, r, ny), K.mul(K.num(-1), at(rhs1, nx, ny)), K.mul(K.num(-1), at(rhs2, r, nx)))

# identify the Inv atoms: Inv0 = Inv[Lx + M'LcM] (post.Sigma), Inv1 = Inv[Sc + M Sx M'] (p_y.Lambda)
(nS, ldS, _), (nQ, ldQ, _) = inv_log
# lemma step 1 (Sylvester, Lean-checked):  LD[Sc + M Sx M'] = ldSc + ldSx + LD[Lx + M'LcM]
def rewrite_atom(e, name, fn):
    k = e[0]
    if k == "atom" and e[1] == name:
        return fn(e[2])
    if k in ("add", "mul"):
        return (k, tuple(rewrite_atom(z, name, fn) for z in e[1]))
    if k == "sum":
        return ("sum", e[1], rewrite_atom(e[2], name, fn))
    if k == "pow":
        return ("pow", rewrite_atom(e[1], name, fn), e[2])
    if k == "fn":
        return ("fn", e[1], rewrite_atom(e[2], name, fn))
    return e
diff1 = rewrite_atom(diff, ldQ, lambda idx: K.add(K.atom("ldSc"), K.atom("ldSx", idx[0]), K.atom(ldS, idx[0])))
# lemma step 2 (Woodbury):  have Inv1 == Lc - Lc M Inv0 M' Lc   by multiply
def woodbury(idx):
    rr, i, k = idx
    a, c, d, e = IV("Dy"), IV("Dx"), IV("Dx"), IV("Dy")
    return K.add(K.atom("Lc", i, k), K.mul(K.num(-1), K.ssum(a, K.ssum(c, K.ssum(d, K.ssum(e, K.mul(
        K.atom("Lc", i, a), K.atom("M", a, c), K.atom(nS, rr, c, d), K.atom("M", e, d), K.atom("Lc", e, k))))))))
ok = False
for head in range(len(ctx.inv_rel[nS]["terms"])):
    ctx.inv_rel[nS]["head"] = head
    # check is_inverse(woodbury, Sc + M Sx M'):  woodbury[i,k] * X[k,l] == delta(i,l)
    rr, i, k, l = IV("Rx"), IV("Dy"), IV("Dy"), IV("Dy")
    c, d = IV("Dx"), IV("Dx")
    X = K.add(K.atom("Sc", k, l), K.ssum(c, K.ssum(d, K.mul(K.atom("M", k, c), K.atom("Sx", rr, c, d), K.atom("M", l, d)))))
    chk = K.add(K.ssum(k, K.mul(woodbury((rr, i, k)), X)), K.mul(K.num(-1), K.delta(i, l)))
    saved = ctx.inv_rel.pop(nQ)            # Q is being eliminated; do not use its own relation
    nf = K.normalize(chk, ctx)
    print(f"  head={head}: Woodbury multiply-check residual monomials = {len(nf)}")
    if not nf:
        diff2 = rewrite_atom(diff1, nQ, woodbury)
        nf2 = K.normalize(diff2, ctx)
        print(f"  head={head}: Bayes identity residual monomials = {len(nf2)}")
        if not nf2:
            ok = True
        else:
            print(K.show(nf2)[:1500])
    ctx.inv_rel[nQ] = saved
    if ok:
        break
print("C09 Bayes identity on real code, R_cond=1, R_x generic, Dx,Dy generic:", ok, f"t={time.time()-t0:.2f}s", ctx.stats)
