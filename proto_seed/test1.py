import sys, time
sys.path.insert(0, '/tmp/proto')
import kernel as K, symnp
from symnp import fresh, SymArr, Axis
from kernel import IV
import gaussian_toolbox.factor as F, gaussian_toolbox.measure as Mm

ctx = K.Ctx()
ctx.sym = {"Su": [(1, 2)], "Lu": [(1, 2)]}
ctx.inv_pairs = [("Su", "Lu"), ("Lu", "Su")]

# patch real modules
F.jnp = symnp; Mm.jnp = symnp
calls = []
def inv_stub(A):
    calls.append(A); raise RuntimeError("invert_matrix should not be called on cached path")
F.linalg.invert_matrix = inv_stub

u = Mm.GaussianMeasure(Lambda=fresh("Lu", "R1", "D", "D"), nu=fresh("nu_u", "R1", "D"), ln_beta=fresh("lb_u", "R1"),
                       Sigma=fresh("Su", "R1", "D", "D"), ln_det_Sigma=fresh("lds_u", "R1"), ln_det_Lambda=fresh("ldl_u","R1"))
f = F.OneRankFactor(v=fresh("v", "R2", "D"), g=fresh("g", "R2"), nu=fresh("nu_f", "R2", "D"), ln_beta=fresh("lb_f", "R2"))
t0=time.time()
d = f._multiply_with_measure(u, update_full=True)     # REAL CODE
print("keys", list(d), "shapes", {k: v.shape for k, v in d.items()})

# obligation 1: layout/value of Lambda_new
Ln = d["Lambda"]
(i, j), k, l = Ln.axes[0].comps, Ln.axes[1].comps[0], Ln.axes[2].comps[0]
assert (i.sort, j.sort) == ("R1", "R2"), "layout must be i*R2+j (row-major R1 x R2)"
spec = K.add(K.atom("Lu", i, k, l), K.mul(K.atom("g", j), K.atom("v", j, k), K.atom("v", j, l)))
print("O1 Lambda_new == Lu[i]+g[j]v[j]v[j]':", K.is_zero(K.add(Ln.expr, K.mul(K.num(-1), spec)), ctx))

# obligation 2: Sigma_new * Lambda_new == I   (clear the denominator by hand here)
Sn = d["Sigma"]
prod = symnp.einsum("abc,acd->abd", Sn, Ln)
a_, b_, d_ = prod.axes
I = K.delta(b_.comps[0], d_.comps[0])
diff = K.add(prod.expr, K.mul(K.num(-1), I))
nf = K.normalize(diff, ctx)
print("O2 raw NF of Sigma_new Lambda_new - I (has inv atoms):"); print(K.show(nf))
nf2 = K.clear_denominators(nf, ctx)
print("O2 after clearing denominators (must be 0):"); print(K.show(nf2))
# obligation 3: ln_det_Sigma_new == lds_u[i] - log(1 + g[j] v[j]' Su[i] v[j])
ld = d["ln_det_Sigma"]
ii, jj = ld.axes[0].comps
c1, c2 = IV("D"), IV("D")
den = K.add(K.num(1), K.mul(K.atom("g", jj), K.ssum(c1, K.ssum(c2, K.mul(K.atom("v", jj, c1), K.atom("Su", ii, c1, c2), K.atom("v", jj, c2))))))
spec = K.add(K.atom("lds_u", ii), K.mul(K.num(-1), K.fn("log", den)))
print("O3 ln_det_Sigma_new == lds_u - log(den):", K.is_zero(K.add(ld.expr, K.mul(K.num(-1), spec)), ctx))
print("time", time.time()-t0, ctx.stats)
