import sys, time
sys.path.insert(0, '/tmp/proto')
import kernel as K, symnp
from symnp import fresh
from kernel import IV
import gaussian_toolbox.factor as F, gaussian_toolbox.measure as Mm, gaussian_toolbox.pdf as P, gaussian_toolbox.conditional as C
ctx = K.Ctx()
ctx.sym = {"Sc": [(0, 1)], "Lc": [(0, 1)]}
ctx.inv_pairs = [("Sc", "Lc"), ("Lc", "Sc")]
for mod in (F, Mm, P, C):
    mod.jnp = symnp
cond = C.ConditionalGaussianPDF(M=fresh("M", 1, "Dy", "Dx"), b=fresh("b", 1, "Dy"), Sigma=fresh("Sc", 1, "Dy", "Dy"),
                                Lambda=fresh("Lc", 1, "Dy", "Dy"), ln_det_Sigma=fresh("ldSc", 1))
y = fresh("y", "N", "Dy"); x = fresh("x", "Nx", "Dx")
f = cond.set_y(y)                                  # REAL
print("factor shapes", f.Lambda.shape, f.nu.shape, f.ln_beta.shape)
val = f.evaluate_ln(x)                             # REAL  [N, Nx]
n, nx = IV("N"), IV("Nx")
comps = [c for ax in val.axes for c in ax.comps]
code = K.subst(val.expr, dict(zip(comps, (n, nx))))
# spec: ln N(y_n; M x_nx + b, Sc) = -1/2 r' Lc r - Dy/2 ln(2 pi) - 1/2 ldSc,  r = y - M x - b
def resid(i):
    d = IV("Dx")
    return K.add(K.atom("y", n, i), K.mul(K.num(-1), K.ssum(d, K.mul(K.atom("M", i, d), K.atom("x", nx, d)))), K.mul(K.num(-1), K.atom("b", i)))
i, j = IV("Dy"), IV("Dy")
ln2pi = K.fn("log", K.mul(K.num(2), K.atom("PI")))
spec = K.add(K.mul(K.num("-1/2"), K.ssum(i, K.ssum(j, K.mul(resid(i), K.atom("Lc", i, j), resid(j))))),
             K.mul(K.num("-1/2"), K.dim("Dy"), ln2pi), K.mul(K.num("-1/2"), K.atom("ldSc")))
nf = K.normalize(K.add(code, K.mul(K.num(-1), spec)), ctx)
print("C10 residual of set_y(y)(x) - lnN(y; Mx+b, Sigma):"); print(K.show(nf))
