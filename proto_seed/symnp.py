"""Scratch prototype: symbolic stand-in for jax.numpy, arrays carry index-notation expressions."""
from fractions import Fraction
import kernel as K
from kernel import IV, IC

pi = ("atom", "PI", ())


class Dim:
    """dimension size: product of sort names (generic), times int"""

    def __init__(self, sorts=(), k=1):
        self.sorts = tuple(sorted(sorts))
        self.k = k

    def __mul__(self, o):
        if isinstance(o, int):
            return Dim(self.sorts, self.k * o)
        if not isinstance(o, Dim):
            return NotImplemented
        return Dim(self.sorts + o.sorts, self.k * o.k)

    __rmul__ = __mul__

    def __eq__(self, o):
        if isinstance(o, int):
            return not self.sorts and self.k == o
        return self.sorts == o.sorts and self.k == o.k

    def __ne__(self, o):
        return not self.__eq__(o)

    def __hash__(self):
        return hash((self.sorts, self.k))

    def __repr__(self):
        return "*".join(self.sorts) if self.k == 1 else f"{self.k}*" + "*".join(self.sorts)

    def as_expr(self):
        e = [K.num(self.k)] + [K.dim(s) for s in self.sorts]
        return K.mul(*e)


class Axis:
    def __init__(self, comps):
        self.comps = list(comps)  # list of IV (atomic sorts); empty = unit

    @property
    def unit(self):
        return not self.comps

    def size(self):
        return Dim([c.sort for c in self.comps])

    def sorts(self):
        return [c.sort for c in self.comps]

    def fresh(self):
        return Axis([IV(c.sort) for c in self.comps])


def _lift(x):
    if isinstance(x, SymArr):
        return x
    if isinstance(x, (int, float)):
        return SymArr([], K.num(Fraction(x)))
    if isinstance(x, Dim):
        return SymArr([], x.as_expr())
    if isinstance(x, tuple) and x and x[0] in ("atom", "num"):
        return SymArr([], x)
    raise TypeError(type(x))


class SymArr:
    def __init__(self, axes, expr):
        self.axes = list(axes)
        self.expr = expr

    def fresh_copy(self):
        m = {}
        axes = []
        for a in self.axes:
            na = a.fresh()
            for p, q in zip(a.comps, na.comps):
                m[p] = q
            axes.append(na)
        return SymArr(axes, K.subst(self.expr, m))

    @property
    def shape(self):
        return tuple(a.size() if not a.unit else 1 for a in self.axes)

    @property
    def ndim(self):
        return len(self.axes)

    @property
    def T(self):
        return SymArr(self.axes[::-1], self.expr)

    def __len__(self):
        return self.shape[0]

    # -- elementwise with broadcasting
    def _bin(self, o, f):
        o = _lift(o)
        a, b = self.fresh_copy(), o.fresh_copy()
        n = max(a.ndim, b.ndim)
        aa = [Axis([])] * (n - a.ndim) + a.axes
        ba = [Axis([])] * (n - b.ndim) + b.axes
        m = {}
        axes = []
        for x, y in zip(aa, ba):
            if x.unit:
                axes.append(y)
            elif y.unit:
                axes.append(x)
            else:
                if x.sorts() != y.sorts():
                    raise TypeError(f"broadcast mismatch {x.sorts()} vs {y.sorts()}")
                for p, q in zip(x.comps, y.comps):
                    if p is not q:
                        m[q] = p
                axes.append(x)
        return SymArr(axes, f(a.expr, K.subst(b.expr, m)))

    def __add__(self, o):
        return self._bin(o, lambda x, y: K.add(x, y))

    __radd__ = __add__

    def __sub__(self, o):
        return self._bin(o, lambda x, y: K.add(x, K.mul(K.num(-1), y)))

    def __rsub__(self, o):
        return _lift(o).__sub__(self)

    def __mul__(self, o):
        return self._bin(o, lambda x, y: K.mul(x, y))

    __rmul__ = __mul__

    def __truediv__(self, o):
        return self._bin(o, lambda x, y: K.mul(x, K.powr(y, -1)))

    def __rtruediv__(self, o):
        return _lift(o).__truediv__(self)

    def __neg__(self):
        return SymArr(self.axes, K.mul(K.num(-1), self.expr))

    def __pow__(self, n):
        assert isinstance(n, int)
        return SymArr(self.axes, K.powr(self.expr, n))

    def __getitem__(self, key):
        if not isinstance(key, tuple):
            key = (key,)
        axes = []
        it = iter(self.axes)
        for k in key:
            if k is None:
                axes.append(Axis([]))
            elif k == slice(None):
                axes.append(next(it))
            else:
                raise NotImplementedError(k)
        axes.extend(it)
        return SymArr(axes, self.expr)

    def reshape(self, *shape):
        if len(shape) == 1 and isinstance(shape[0], (tuple, list)):
            shape = tuple(shape[0])
        comps = [c for a in self.axes for c in a.comps]
        axes = []
        pos = 0
        for s in shape:
            if s == 1:
                axes.append(Axis([]))
                continue
            want = list(s.sorts)
            got = []
            while want:
                c = comps[pos]
                if c.sort not in want:
                    raise TypeError(f"cannot reshape {self.shape} into {shape}")
                want.remove(c.sort)
                got.append(c)
                pos += 1
            axes.append(Axis(got))
        if pos != len(comps):
            raise TypeError(f"cannot reshape {self.shape} into {shape}")
        return SymArr(axes, self.expr)

    def diagonal(self, axis1, axis2):
        n = self.ndim
        a1, a2 = axis1 % n, axis2 % n
        x, y = self.axes[a1], self.axes[a2]
        m = {q: p for p, q in zip(x.comps, y.comps)}
        rest = [a for i, a in enumerate(self.axes) if i not in (a1, a2)]
        return SymArr(rest + [x], K.subst(self.expr, m))


def reshape(x, shape):
    return x.reshape(shape)


def einsum(spec, *ops):
    spec = spec.replace(" ", "")
    ins, out = spec.split("->")
    ins = ins.split(",")
    ops = [op.fresh_copy() for op in ops]
    letter_axis = {}
    exprs = []
    for s, op in zip(ins, ops):
        assert len(s) == op.ndim, (s, op.shape)
        m = {}
        for ch, ax in zip(s, op.axes):
            if ax.unit:
                continue
            if ch not in letter_axis:
                letter_axis[ch] = ax
            else:
                tgt = letter_axis[ch]
                if tgt.sorts() != ax.sorts():
                    raise TypeError(f"einsum size mismatch for {ch}")
                for p, q in zip(tgt.comps, ax.comps):
                    if p is not q:
                        m[q] = p
        exprs.append(K.subst(op.expr, m))
    e = K.mul(*exprs)
    for ch, ax in letter_axis.items():
        if ch not in out:
            for c in ax.comps:
                e = K.ssum(c, e)
    # NB: result axes must get fresh copies if the same axis object is used twice? (not in out twice)
    return SymArr([letter_axis.get(ch, Axis([])) for ch in out], e)


def _sum(x, axis=None, keepdims=False):
    axis = axis % x.ndim
    e = x.expr
    for c in x.axes[axis].comps:
        e = K.ssum(c, e)
    axes = [a for i, a in enumerate(x.axes) if i != axis]
    if keepdims:
        axes.insert(axis, Axis([]))
    return SymArr(axes, e)


sum = _sum


def log(x):
    x = _lift(x)
    return SymArr(x.axes, K.fn("log", x.expr))


def exp(x):
    x = _lift(x)
    return SymArr(x.axes, K.fn("exp", x.expr))


def fresh(name, *sorts):
    axes = [Axis([IV(s)]) if s != 1 else Axis([]) for s in sorts]
    idx = [a.comps[0] for a in axes if not a.unit]
    return SymArr(axes, K.atom(name, *idx))


def swapaxes(x, axis1, axis2):
    ax = list(x.axes)
    ax[axis1], ax[axis2] = ax[axis2], ax[axis1]
    return SymArr(ax, x.expr)


# ---------------------------------------------------------------- more shim (prototype round 2)
pi = SymArr([], ("atom", "PI", ()))


def _dim_to_axis(d):
    if isinstance(d, int):
        assert d == 1, d
        return Axis([])
    assert d.k == 1
    return Axis([IV(s) for s in d.sorts])


def tile(x, reps):
    x = x.fresh_copy()
    reps = list(reps)
    axes = [Axis([])] * (len(reps) - x.ndim) + x.axes
    reps = [1] * (len(axes) - len(reps)) + reps
    out = []
    for ax, r in zip(axes, reps):
        if r == 1:
            out.append(ax)
        else:
            new = _dim_to_axis(r)
            out.append(Axis(new.comps + ax.comps))
    return SymArr(out, x.expr)


def zeros(shape):
    if not isinstance(shape, (tuple, list)):
        shape = (shape,)
    return SymArr([_dim_to_axis(s) for s in shape], K.num(0))


def dot(a, b):
    assert a.ndim == 2 and b.ndim == 2
    return einsum("ab,bc->ac", a, b)


def _iadd(self, o):
    return self + o


SymArr.__iadd__ = _iadd
_old_fresh = fresh


def fresh(name, *sorts, batch_unit=False):
    axes = [Axis([IV(s)]) if s != 1 else Axis([]) for s in sorts]
    idx = [a.comps[0] for a in axes if not a.unit]
    return SymArr(axes, K.atom(name, *idx))
