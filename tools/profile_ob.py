#!/usr/bin/env python3
"""tools/profile_ob.py <Cxx> <substring of obligation id> [timeout_s]: run one obligation symbolically, timing every clause"""
import signal
import sys
import time

sys.path.insert(0, "/verif")
sys.setrecursionlimit(20000)
from gtv import extract as X  # noqa: E402
from gtv.world import SymWorld  # noqa: E402
import importlib  # noqa: E402

mod = importlib.import_module(f"gtv.props.{sys.argv[1]}")
ob = [o for o in mod.REG.obs if sys.argv[2] in o.id][0]
order = {k: v for k, v in ob.order.items()}
w = SymWorld(order=order)
orig = w.equal


def eq(nm, a, b, **kw):
    t0 = time.time()
    try:
        r = orig(nm, a, b, **kw)
    except Exception as ex:  # noqa
        print(nm, "EXC", type(ex).__name__, str(ex)[:200], round(time.time() - t0, 2), flush=True)
        return False
    print(nm, r, round(time.time() - t0, 2), flush=True)
    if not r:
        print(w.results[-1].detail[:1500])
    return r


w.equal = eq


def handler(sig, frm):
    import traceback
    traceback.print_stack(frm, limit=14)
    print(w.ctx.stats)
    sys.exit(1)


signal.signal(signal.SIGALRM, handler)
signal.alarm(int(sys.argv[3]) if len(sys.argv) > 3 else 120)
print(ob.id)
with X.symbolic(w):
    ob.fn(w)
print(w.ctx.stats)
