#!/usr/bin/env python3
"""lists every function / method defined in /repo/gaussian_toolbox and whether some obligation names it under `funcs`
(functions under contract).  Functions that are only reached through other functions' obligations are listed as 'indirect'
when a line tracer sees them executed during the symbolic run of any obligation (not computed here)."""
import ast
import importlib
import os
import sys

sys.path.insert(0, "/verif")
REPO = "/repo/gaussian_toolbox"
defined = []
for root, _, files in os.walk(REPO):
    for fn in files:
        if not fn.endswith(".py") or fn == "jax_minimize_wrapper.py":
            continue
        mod = os.path.relpath(os.path.join(root, fn), REPO)[:-3].replace("/", ".")
        tree = ast.parse(open(os.path.join(root, fn)).read())
        for node in tree.body:
            if isinstance(node, ast.FunctionDef):
                defined.append(f"{mod}.{node.name}")
            elif isinstance(node, ast.ClassDef):
                for sub in node.body:
                    if isinstance(sub, ast.FunctionDef):
                        defined.append(f"{mod}.{node.name}.{sub.name}")
claimed = set()
for k in range(1, 21):
    m = importlib.import_module(f"gtv.props.C{k:02d}")
    for o in m.REG.obs:
        claimed.update(o.funcs)
trivial = ("__str__", "R", "D", "Dx", "Dy", "Dk", "Da", "Du", "Dphi", "integration_dict")
missing = [d for d in defined if d not in claimed and d.split(".")[-1] not in trivial]
print(f"defined {len(defined)}, named under contract {len([d for d in defined if d in claimed])}, not named {len(missing)}")
for d in missing:
    print("  ", d)
