#!/usr/bin/env python3
"""tools/line_coverage.py [tier]: which lines / branches of /repo/gaussian_toolbox do the obligations execute?
Runs every obligation of every property symbolically (one process per property) under coverage.py, combines the data and
prints, per function, the lines never executed by any obligation.  An un-executed line is code no contract reaches; it is
either dead / refusing code, or a coverage gap to close (this is how the Dx == 1 branches were found too late).
Scratch data goes to /tmp/gtv_cov (removed afterwards)."""
import ast
import importlib
import os
import shutil
import subprocess
import sys

VERIF = os.path.dirname(os.path.dirname(os.path.abspath(__file__)))
REPO = os.environ.get("GTV_REPO", "/repo")
SCR = "/tmp/gtv_cov"


def worker(prop, tier):
    import coverage
    sys.path.insert(0, VERIF)
    sys.setrecursionlimit(20000)
    cov = coverage.Coverage(data_file=os.path.join(SCR, f"cov.{prop}"), include=[os.path.join(REPO, "gaussian_toolbox", "*")], branch=True)
    cov.start()
    from gtv import extract as X
    from gtv.world import SymWorld
    mod = importlib.import_module(f"gtv.props.{prop}")
    n = 0
    for ob in mod.REG.obs:
        if tier == "quick" and ob.tier != "quick":
            continue
        w = SymWorld(order=dict(ob.order))
        cov.switch_context(ob.id)
        try:
            with X.symbolic(w):
                ob.fn(w)
        except Exception:  # noqa  (refusal obligations etc.)
            pass
        n += 1
    cov.stop()
    cov.save()
    print(prop, n, flush=True)


def main():
    tier = sys.argv[1] if len(sys.argv) > 1 else "quick"
    shutil.rmtree(SCR, ignore_errors=True)
    os.makedirs(SCR)
    props = [f"C{k:02d}" for k in range(1, 21)]
    procs = [subprocess.Popen([sys.executable, __file__, "--worker", p, tier]) for p in props]
    for p in procs:
        p.wait()
    import coverage
    cov = coverage.Coverage(data_file=os.path.join(SCR, "cov.all"), branch=True)
    cov.combine([os.path.join(SCR, f) for f in os.listdir(SCR) if f.startswith("cov.C")], keep=True)
    cov.save()
    total_missing = 0
    if os.environ.get("GTV_LINE_MAP"):
        # line -> obligations that execute it (input of tools/mutate.py)
        import json
        data = cov.get_data()
        out = {}
        for f in data.measured_files():
            rel = os.path.relpath(f, REPO)
            out[rel] = {str(ln): sorted(c for c in ctxs if c) for ln, ctxs in data.contexts_by_lineno(f).items()}
        with open(os.environ["GTV_LINE_MAP"], "w") as fh:
            json.dump(out, fh)
    for root, _, files in os.walk(os.path.join(REPO, "gaussian_toolbox")):
        for f in sorted(files):
            if not f.endswith(".py"):
                continue
            path = os.path.join(root, f)
            try:
                _, stmts, _, missing, _ = cov.analysis2(path)
            except Exception:  # noqa
                continue
            try:
                arcs = cov._analyze(path).missing_branch_arcs()
            except Exception:  # noqa
                arcs = {}
            arcs = {a: b for a, b in arcs.items() if a not in missing}
            if not missing and not arcs:
                continue
            tree = ast.parse(open(path).read())
            spans = []
            for node in ast.walk(tree):
                if isinstance(node, (ast.FunctionDef, ast.AsyncFunctionDef)):
                    spans.append((node.lineno, node.end_lineno, node.name))
            by_fn = {}
            for ln in missing:
                inner = [s for s in spans if s[0] <= ln <= s[1]]
                name = min(inner, key=lambda s: s[1] - s[0])[2] if inner else "<module>"
                by_fn.setdefault(name, []).append(ln)
            rel = os.path.relpath(path, REPO)
            print(f"{rel}: {len(missing)} of {len(stmts)} statements never executed")
            for name, lns in sorted(by_fn.items(), key=lambda kv: kv[1][0]):
                print(f"    {name}: {lns}")
            if arcs:
                def fn_of(ln):
                    inner = [s_ for s_ in spans if s_[0] <= ln <= s_[1]]
                    return min(inner, key=lambda s_: s_[1] - s_[0])[2] if inner else "<module>"
                print("    branches taken in one direction only (line -> never-taken successor):")
                for a in sorted(arcs):
                    print(f"        {fn_of(a)}: {a} -> {arcs[a]}")
            total_missing += len(missing)
    print("total never-executed statements:", total_missing)
    shutil.rmtree(SCR, ignore_errors=True)


if __name__ == "__main__":
    if len(sys.argv) > 1 and sys.argv[1] == "--worker":
        worker(sys.argv[2], sys.argv[3])
    else:
        main()
