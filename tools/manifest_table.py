"""Claimed properties and not-applicable list (source of MANIFEST.json)."""
BASE_NOTE = ("Assumes: float64 treated as real arithmetic; mathematical contracts of jax.numpy primitives (conformance-tested "
             "against the pinned jax by numeric replay of every obligation); positive definiteness of inverted matrices; "
             "GTV kernel/shim (Python) trusted, cross-checked numerically; textbook axioms named in the evidence file.")

CLAIMED = {
    "C10": ("For every conditional kind and both batch conventions, the real set_y + evaluate_ln/product are executed on symbolic "
            "arrays with symbolic sizes N, Nx, Dx, Dy and the result is proved equal (normal form) to ln N(y; Mx+b, Sigma); "
            "holds for all sizes and values at once.", BASE_NOTE, "DESIGN §6-C10"),
}

_PENDING = "check not built yet in this round (planned, see DESIGN §6); not claimed until its obligations are discharged"
NOT_APPLICABLE = {f"C{n:02d}": _PENDING for n in range(1, 21)}
