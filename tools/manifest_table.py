"""Claimed properties and not-applicable list (source of MANIFEST.json)."""
BASE_NOTE = ("Assumes: float64 treated as real arithmetic; mathematical contracts of jax.numpy primitives (conformance-tested "
             "against the pinned jax by numeric replay of every obligation); positive definiteness of inverted matrices; "
             "GTV kernel/shim (Python) trusted, cross-checked numerically; textbook axioms named in the evidence file.")

CLAIMED = {
    "C01": ("All products (multiply, *, hadamard, product()) of every measure kind with every factor kind, both update_full modes, "
            "cached and uncached covariance, all four batch layouts: the real methods are executed symbolically and the real "
            "evaluate_ln of the result is proved equal to lnf(u)_i + lnf(f)_j on the row-major pair axis (i,j); operands' attributes "
            "are proved unchanged (frame). Also: documented constructor defaults (omitted nu / ln_beta / g), evaluate / __call__, the "
            "element_wise evaluation path and its refusal.", BASE_NOTE, "DESIGN §6-C01"),
    "C02": ("Mass queries are proved equal to the Gaussian integral formula lnmass (axiom G1) in every cache state and query order; "
            "every constructor argument combination (full and diagonal) is proved to establish wf_pdf and to evaluate to N(x; mu, Sigma); "
            "get_density / normalize are proved to divide by the mass; density-returning APIs are covered through wf clauses.",
            BASE_NOTE + " G1 (Gaussian integral) is assumed.", "DESIGN §6-C02"),
    "C03": ("Each of the 12 integrate keys, with shared / per-component / omitted coefficients, R generic or 1, cached or not, is proved "
            "equal to exp(lnmass) times the Isserlis/Wick expansion generated combinatorially (subsets x perfect matchings), for "
            "symbolic D, K, L, M, R.", BASE_NOTE + " G1, G2 (Isserlis) assumed; bit-exactness in exact mode is floating point and not claimed.",
            "DESIGN §6-C03"),
    "C04": ("Class invariant wf (Sigma*Lambda=I, ln det consistency via Lean-checked determinant lemmas, mu=Sigma nu, lnZ) is proved for "
            "results, receiver and arguments of every product / query / normalize / product() operation from every cache state; "
            "induction over histories follows because every operation preserves wf.", BASE_NOTE, "DESIGN §6-C04"),
    "C08": ("affine_marginal_transformation of all five conditional kinds, layouts (1,1),(1,n),(n,1): mean and covariance proved equal to "
            "M mu + b and Sigma + M Sigma_x M', result proved wf_pdf, and its log-density proved equal to ln of the Gaussian integral of "
            "p(y|x)p(x) over x (G1) using Woodbury and Sylvester hints that the kernel checks; (n,m) refusal proved.",
            BASE_NOTE + " G1 assumed.", "DESIGN §6-C08"),
    "C05": ("get_marginal for an ARBITRARY injective index list (any order, subset or all coordinates; full and diagonal): mean/covariance "
            "proved to be the sub-vector / sub-matrix, result proved wf_pdf, and its log-density proved equal to ln of the Gaussian integral "
            "of the joint over the remaining coordinates (Schur-complement inverse checked by the kernel, principal-submatrix determinant "
            "from the Lean library). get_density_of_linear_sum: law N(W mu + b, W Sigma W') with and without b, and the refusal for too many rows.",
            BASE_NOTE + " G1 assumed; positive definiteness of W Sigma W' (full row rank) is a precondition.", "DESIGN §6-C05"),
    "C06": ("condition_on / condition_on_explicit for an arbitrary partition of the coordinates by two disjoint injective index lists "
            "(any order): parameters proved equal to the spec, result proved a well-formed conditional, and the product rule "
            "p(x_a|x_b) p(x_b) = p(x) proved at all points through the real condition_on_x, get_marginal and evaluate_ln.",
            BASE_NOTE + " jnp.setxor1d (ascending complement) is an assumed contract.", "DESIGN §6-C06"),
    "C07": ("affine_joint_transformation of all five conditional kinds, layouts (1,1),(1,n),(n,1), both dimension regimes: block mean and "
            "covariance proved equal to the spec, the joint proved wf_pdf (block Sigma*Lambda = I; log-determinant by the Lean-checked Schur "
            "lemmas), and its log-density proved equal to ln p(y|x) + ln p(x) at all points; (n,m) refusal proved.", BASE_NOTE, "DESIGN §6-C07"),
    "C09": ("affine_conditional_transformation, all kinds and layouts: posterior parameters proved equal to the spec, result proved a "
            "well-formed conditional, Bayes identity p(x|y)p(y) = p(y|x)p(x) proved at all points with p(y) from the real marginal "
            "transformation (Woodbury + Sylvester hints checked by the kernel), and both round trips proved component-wise.",
            BASE_NOTE, "DESIGN §6-C09"),
    "C11": ("Lemma layer over the real functions: one-step lemma (conditional transformation + conditioning == joint transformation + "
            "coordinate conditioning == prior x likelihood normalised; predictive density == mass of prior x likelihood) for the full, "
            "identity and NN kinds; two observations with individual (M_i,b_i,Sigma_i) in both orders and as a product; telescoping "
            "evidence; one Kalman predict/update step against conditioning the joint; the one-step lemma for a prior with K components and N "
            "observed values at once (layout k*N+n on all three routes). Arbitrary N / order / T follow by induction from "
            "these lemmas and the Lean-checked commutativity of natural-parameter updates. The evidence clauses currently fail exactly "
            "as recorded in known finding KF-set_y-normaliser-uses-Dx.",
            BASE_NOTE + " The dense-joint reference for T>1 Kalman steps is an induction argument, not a mechanised obligation.", "DESIGN §6-C11"),
    "C12": ("For an ARBITRARY index map rho (repeats, permutations, wrapped negatives): slice of every factor / measure / density / "
            "conditional kind, slice-commutation with multiply (layout i*R2+j), hadamard, integrals, condition_on_x (layout r*N+n), the three "
            "affine transformations, entropy and KL, and the selector model of update() are proved for symbolic batch sizes.",
            BASE_NOTE + " jnp.take wrap-around semantics and one-winner scatter are assumed contracts.", "DESIGN §6-C12"),
    "C13": ("entropy, KL (three batch conventions), conditional entropy (both characterisations) and mutual information with its sign, "
            "M=0 and swap invariance are proved equal to expectations generated by the Wick spec; inequality clauses inherit from Gibbs' "
            "inequality (assumed); constructor contracts of every conditional class (Sigma / Lambda / both / all three supplied) establish "
            "the class invariant the information quantities read.", BASE_NOTE + " G2, G5 assumed.", "DESIGN §6-C13"),
    "C14": ("integrate('log u(x)') for every factor kind and batch convention (and its refusal), integrate_log_conditional for an arbitrary "
            "block Gaussian q over (y,x), integrate_log_conditional_y as callable and evaluated, for the linear, identity and NN-controlled "
            "kinds, are proved equal to the Wick expectations; RBF and squared-exponential feature models: integrate_log_conditional_y (callable "
            "and evaluated, p_x batched or single) proved from the kernel moments; constructor contracts of every conditional class in every "
            "argument combination; integrate_log_conditional of the two feature models for an arbitrary Gaussian q over (y,x) (written in its "
            "conditional factorisation; the tilted joint's inverse is the Schur-complement formula of the invert_matrix contract, Lean "
            "inv_fromBlocks11), with p_x given or taken as the marginal.",
            BASE_NOTE + " G1, G2 assumed.", "DESIGN §6-C14"),
    "C15": ("Literal statement on equal parameters, both sides extracted from the real code: rank-one / linear / constant factors vs "
            "ConjugateFactor (evaluate, slice, product, multiply and hadamard in both update_full modes incl. Sherman-Morrison vs full "
            "inversion, expected log-factor), diagonal measure / density / conditional vs the full-matrix classes, identity and "
            "identity-diagonal conditionals vs ConditionalGaussianPDF with M=I, b=0 for every operation and batch layout, NN-controlled "
            "conditional with fixed control vs ConditionalGaussianPDF(M(u), b(u)).", BASE_NOTE, "DESIGN §6-C15"),
    "C16": ("Moment matching proved from first principles (kernel moments as Gaussian integrals of products, axiom G1): RBF and squared-"
            "exponential feature models -- unit-height read-out, condition_on_x, expected moments, cross terms, marginal (wf_pdf), "
            "conditional transformation (= Gaussian conditional of the moment-matched joint) and the joint's mean / covariance blocks, R "
            "generic or 1 (Sherman-Morrison and rank-one determinant ghost steps for the squared-exponential kernels); heteroscedastic exp, "
            "cosh-1, step and rectified-linear links -- E[link(h)] (Gaussian mgf; truncated-measure contracts under vmap), moments, cross "
            "terms, marginal, the conditional transformation and the joint with its full class invariant for all four links (block inverse = "
            "Schur-complement formula, Lean inv_fromBlocks11/22); RBF / squared-exponential joints: Sigma*Lambda = I, symmetry, ln det, "
            "mu = Sigma nu, nu = Lambda mu. NOT covered: the lnZ / ln_beta clauses of the RBF / squared-exponential joints (canonicalisation "
            "budget of the kernel).",
            BASE_NOTE + " G1, G2, G4 assumed; positive definiteness of moment-matched covariances is a precondition.", "DESIGN §6-C16, §11"),
    "C17": ("(a) coherent p(y|x): for the four links condition_on_x(x) has mean Mx+b, covariance AA' + A_k diag(link(Wx+w0)) A_k', and its "
            "precision / log-determinant ARE the inverse / log-determinant of that covariance in the regime Da = Dy (Lean det_gram_diag); in "
            "the regime Da > Dy the same obligations fail with replayable inputs = open known finding. (b) exp and cosh-1 links: k_func and "
            "_lower_bound_integrals are proved to be the expectations of the Jaakkola-Jordan / cosh surrogates for an ARBITRARY positive "
            "variational parameter, and integrate_log_conditional_y is proved to be their assembly (vmap modelled, lax.while_loop replaced by "
            "its contract); step link: get_lb_log_det and the per-unit quadratic term are proved EQUAL to the exact expectations (conditional "
            "law of a Gaussian pair + truncated moments); ReLU link: _get_omega_dagger = E[relu(h)], k_func and _lower_bound_integrals (cubic and "
            "quartic) are proved to be the expectations of the tangent surrogates of ln(1+h) and h/(1+h) on the half line (linear tilt + "
            "truncated moments up to order 4), the assembly being the base-class method proved for exp / cosh-1. That the surrogates bound "
            "the true integrands (G6) is assumed. NOT covered: the fixed-point updates of omega inside lax.while_loop (replaced by the "
            "contract 'any positive value'), clause (c) tightness (asymptotic statement).",
            BASE_NOTE + " G1-G4, G6 assumed where named.", "DESIGN §6-C17, §11"),
    "C18": ("Decides the contract-expressible part: the REAL registered flatten/unflatten lambdas (captured by substituting "
            "jax.tree_util.register_pytree_node) round-trip every factor / measure / density / conditional class in every cache state with "
            "all attributes proved equal; every pytree child is an array or None (the structural precondition of jit/vmap/scan; the defect "
            "found here for ConstantFactor and the NN-controlled conditional is repaired in fix commit 2e37312); the same round trip for a density after an in-place update(); "
            "__getstate__/__setstate__ (copy / pickle) round trips; the dict-like constructor guards; to_dict/from_dict round trips; the numeric replay runs the real "
            "jax.jit on each class. Numerical agreement of jit/vmap/grad with eager execution / finite differences is JAX semantics and is "
            "NOT claimed.", BASE_NOTE + " jax.tree_util calls the registered functions as registered (assumed).", "DESIGN §6-C18, §11"),
    "C19": ("sample(key, n) is proved to be mu + L z with L = cholesky(Sigma) and z = jax.random.normal(key, (n,R,D)) (pairing of L[a] with "
            "z[:,a,:], shape [n,R,D]), deterministic in the key, depending on the stream only through its own draw and component, with no "
            "other randomness. The law N(mu, Sigma) then follows from the assumed contracts of cholesky / random.normal and G3; statistical "
            "moment clauses are not part of this technique.", BASE_NOTE, "DESIGN §6-C19, §11"),
    "C20": ("For every configuration of the limits (finite / omitted / explicitly infinite), un-normalised measure or density base, R generic "
            "or 1: evaluation == u(x)*1[a<=x<=b] (both modes), integrals of 1, x, x^2 and x^k for k = 0..6 (lax.scan unrolled) == mass * "
            "sum_i C(k,i) sigma^i mu^(k-i) J_i with J_i from the integration-by-parts recursion (axiom G4), additivity over adjacent "
            "intervals and half lines, and the normalised density (from get_density and built directly) with its mean and variance are "
            "proved symbolically in Phi / phi atoms. misc.normal_cdf body proved against Phi by case split; misc.binom is a bounded "
            "stand-in (exhaustive 0 <= i <= k <= 12). Far-tail floating-point cancellation is not covered.",
            BASE_NOTE + " G4 assumed; truncated mass > 0 (a < b) is a precondition.", "DESIGN §6-C20"),
    "C10": ("For every conditional kind and both batch conventions, the real set_y + evaluate_ln/product are executed on symbolic "
            "arrays with symbolic sizes N, Nx, Dx, Dy and the result is proved equal (normal form) to ln N(y; Mx+b, Sigma); "
            "holds for all sizes and values at once.", BASE_NOTE, "DESIGN §6-C10"),
}

_PENDING = "check not built yet in this round (planned, see DESIGN §6); not claimed until its obligations are discharged"
NOT_APPLICABLE = {f"C{n:02d}": _PENDING for n in range(1, 21)}
