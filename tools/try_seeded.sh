#!/bin/bash
# tools/try_seeded.sh <seed-id> <worktree> <property> [test files...]
# confirms a seeded change (demo fails with it / passes without it / existing tests pass with it), stores it under
# /verif/seeded/<seed-id>/ and runs the property's quick check against /repo with the patch applied (then reverts).
set -u
ID=$1; WT=$2; PROP=$3; shift 3; TESTS="$@"
OUT=/verif/seeded/$ID; mkdir -p $OUT
git -C $WT diff -- gaussian_toolbox > $OUT/patch.diff
cp $WT/demo_seeded.py $OUT/demo_seeded.py
cd $WT
PYTHONPATH=$WT /venv/bin/python -W ignore demo_seeded.py > $OUT/demo_with.txt 2>&1; RC_WITH=$?
git checkout -q -- gaussian_toolbox
PYTHONPATH=$WT /venv/bin/python -W ignore demo_seeded.py > $OUT/demo_without.txt 2>&1; RC_WITHOUT=$?
git apply $OUT/patch.diff
if [ -n "$TESTS" ]; then
  PYTHONPATH=$WT timeout 1500 /venv/bin/python -m pytest -q -p no:cacheprovider -n 4 $TESTS > $OUT/tests_with.txt 2>&1; RC_TESTS=$?
else RC_TESTS=-1; fi
cd /verif
git -C /repo apply $OUT/patch.diff
./check $PROP --tier quick > $OUT/check_quick.txt 2>&1; RC_CHECK=$?
git -C /repo checkout -- .
echo "{\"seed\": \"$ID\", \"property\": \"$PROP\", \"demo_rc_with_change\": $RC_WITH, \"demo_rc_without_change\": $RC_WITHOUT, \"existing_tests_rc_with_change\": $RC_TESTS, \"tests_run\": \"$TESTS\", \"check_rc\": $RC_CHECK}" > $OUT/result.json
cat $OUT/result.json; grep -c VIOLATION $OUT/check_quick.txt; tail -1 $OUT/check_quick.txt
