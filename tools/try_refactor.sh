#!/bin/bash
# tools/try_refactor.sh <name> <worktree>: a behaviour-preserving refactoring (patch.diff + equiv_check.py in the worktree) is applied
# to a scratch copy of the package and every quick check is run against it (GTV_REPO): all must exit 0 (no false alarm).
set -u
NAME=$1; WT=$2
OUT=/verif/seeded/refactor-$NAME; mkdir -p $OUT
git -C $WT diff -- gaussian_toolbox > $OUT/patch.diff
cp $WT/equiv_check.py $OUT/equiv_check.py 2>/dev/null
(cd $WT && PYTHONPATH=$WT /venv/bin/python -W ignore equiv_check.py > $OUT/equiv_check.txt 2>&1); RC_EQ=$?
SCR=/tmp/gtv_rf_$NAME; rm -rf $SCR; mkdir -p $SCR; cp -r $WT/gaussian_toolbox $SCR/
cd /verif
: > $OUT/checks.txt
for p in $(python3 -c "import json; print(' '.join(c['property_id'] for c in json.load(open('MANIFEST.json'))['checks']))"); do
  GTV_REPO=$SCR ./check $p 2>/dev/null | grep -E "^\[C|^VIOLATION|^CHECKER|^UNDECIDED" | cut -c1-260 >> $OUT/checks.txt
done
rm -rf $SCR
echo "equiv_check rc=$RC_EQ"; grep -c "exit=0" $OUT/checks.txt; grep -v "exit=0" $OUT/checks.txt | head -20
