#!/bin/bash
# runs every claimed check (tier $1, default quick) against /repo and prints one summary line per property
cd "$(dirname "$0")/.."
TIER=${1:-quick}
for p in $(python3 -c "import json; print(' '.join(c['property_id'] for c in json.load(open('MANIFEST.json'))['checks']))"); do
  ./check $p --tier $TIER 2>/dev/null | grep -E "^\[C|^VIOLATION|^CHECKER|^UNDECIDED" | cut -c1-220
done
