#!/usr/bin/env python3
"""tools/mutate.py gen|run|report: systematic mutation of /repo/gaussian_toolbox against the obligations.

  gen    enumerate mutants (AST-located single-token edits: an einsum index letter, a sign, tile / reshape order, an axis,
         a [:, None] placement, a numeric constant) -> /tmp/gtv_mut/mutants.json  (seeded sample, at most N per function)
  run    for every mutant: copy the package to /tmp/gtv_mut/<k>/, apply the edit, and run exactly the obligations that EXECUTE
         the edited line (map produced by `GTV_LINE_MAP=/tmp/line_map.json tools/line_coverage.py quick`) with GTV_REPO
         pointing at the copy; a mutant is KILLED if some check exits 1 (violation) or 3 (proof / real-code disagreement)
  report list the survivors (candidates for coverage gaps or equivalent mutants)

Nothing here touches /repo; scratch lives under /tmp/gtv_mut and is removed per mutant.  This is a tool for finding gaps in
the obligations, not a registered check."""
import ast
import json
import os
import random
import shutil
import subprocess
import sys
from concurrent.futures import ThreadPoolExecutor

VERIF = os.path.dirname(os.path.dirname(os.path.abspath(__file__)))
REPO = "/repo"
SCR = "/tmp/gtv_mut"
FILES = os.environ.get("GTV_MUT_FILES", "").split(",") if os.environ.get("GTV_MUT_FILES") else \
    ["factor.py", "measure.py", "pdf.py", "conditional.py", "approximate_conditional.py", "utils/linalg.py",
     "experimental/truncated_measure.py"]
LETTERS = "abcdefghijklmnopqrstuvwxyz"


def _functions(tree):
    out = []

    def visit(node, prefix):
        for ch in ast.iter_child_nodes(node):
            if isinstance(ch, ast.ClassDef):
                visit(ch, prefix + [ch.name])
            elif isinstance(ch, (ast.FunctionDef, ast.AsyncFunctionDef)):
                out.append((".".join(prefix + [ch.name]), ch))
                visit(ch, prefix + [ch.name])
    visit(tree, [])
    return out


def _edits_for(fn_node, src_lines):
    """yield (lineno, col, end_col, new_text, description) single-line edits inside fn_node"""
    doc = ast.get_docstring(fn_node, clean=False)
    for node in ast.walk(fn_node):
        if isinstance(node, ast.Raise) or isinstance(node, ast.Assert):
            continue
        ln = getattr(node, "lineno", None)
        if ln is None or getattr(node, "end_lineno", ln) != ln:
            # multi-line nodes: only handle string constants inside them (einsum specs) below
            pass
        if isinstance(node, ast.Call):
            f = node.func
            name = f.attr if isinstance(f, ast.Attribute) else (f.id if isinstance(f, ast.Name) else "")
            if name == "einsum" and node.args and isinstance(node.args[0], ast.Constant) and isinstance(node.args[0].value, str):
                c = node.args[0]
                if c.lineno == c.end_lineno:
                    spec = c.value
                    text = src_lines[c.lineno - 1][c.col_offset:c.end_col_offset]
                    quote = text[0]
                    if "->" in spec:
                        ins, outp = spec.split("->")
                        used = set(ch for ch in spec if ch.isalpha())
                        fresh = next(ch for ch in LETTERS if ch not in used)
                        ops = ins.split(",")
                        # (1) decouple one letter of one operand (summed out instead of matched)
                        for oi, op in enumerate(ops):
                            for li, ch in enumerate(op):
                                if not ch.isalpha() or spec.count(ch) < 2:
                                    continue
                                new_ops = list(ops)
                                new_ops[oi] = op[:li] + fresh + op[li + 1:]
                                new = ",".join(new_ops) + "->" + outp
                                yield (c.lineno, c.col_offset, c.end_col_offset, quote + new + quote, f"einsum {spec!r} -> {new!r}")
                        # (2) swap two letters of the output
                        o = outp.strip()
                        for li in range(len(o) - 1):
                            if o[li].isalpha() and o[li + 1].isalpha() and o[li] != o[li + 1]:
                                new_o = o[:li] + o[li + 1] + o[li] + o[li + 2:]
                                new = ins + "->" + outp.replace(o, new_o)
                                yield (c.lineno, c.col_offset, c.end_col_offset, quote + new + quote, f"einsum {spec!r} -> {new!r}")
                        # (3) swap two letters inside one operand
                        for oi, op in enumerate(ops):
                            t = op.strip()
                            for li in range(len(t) - 1):
                                if t[li].isalpha() and t[li + 1].isalpha() and t[li] != t[li + 1]:
                                    new_t = t[:li] + t[li + 1] + t[li] + t[li + 2:]
                                    new_ops = list(ops)
                                    new_ops[oi] = op.replace(t, new_t)
                                    new = ",".join(new_ops) + "->" + outp
                                    yield (c.lineno, c.col_offset, c.end_col_offset, quote + new + quote, f"einsum {spec!r} -> {new!r}")
            if name in ("tile", "reshape") and len(node.args) >= 1:
                tup = node.args[-1]
                if isinstance(tup, ast.Tuple) and len(tup.elts) >= 2 and tup.lineno == tup.end_lineno:
                    for k in range(len(tup.elts) - 1):
                        a, b = tup.elts[k], tup.elts[k + 1]
                        ta = src_lines[a.lineno - 1][a.col_offset:a.end_col_offset]
                        tb = src_lines[b.lineno - 1][b.col_offset:b.end_col_offset]
                        if ta != tb and a.lineno == b.lineno == a.end_lineno == b.end_lineno:
                            mid = src_lines[a.lineno - 1][a.end_col_offset:b.col_offset]
                            yield (a.lineno, a.col_offset, b.end_col_offset, tb + mid + ta, f"{name} arguments {ta},{tb} swapped")
            for kw in node.keywords:
                if kw.arg in ("axis", "axis1", "axis2") and isinstance(kw.value, ast.Constant) and isinstance(kw.value.value, int) \
                        and kw.value.lineno == kw.value.end_lineno:
                    v = kw.value.value
                    nv = {0: 1, 1: 0, 2: 1, -1: -2, -2: -1}.get(v)
                    if nv is not None:
                        yield (kw.value.lineno, kw.value.col_offset, kw.value.end_col_offset, str(nv), f"{kw.arg}={v} -> {nv}")
        if isinstance(node, ast.BinOp) and isinstance(node.op, (ast.Add, ast.Sub)) and node.left.end_lineno == node.right.lineno:
            ln = node.right.lineno
            gap = src_lines[ln - 1][node.left.end_col_offset:node.right.col_offset]
            sym = "+" if isinstance(node.op, ast.Add) else "-"
            if gap.count(sym) == 1 and gap.strip(" ()") == sym:
                pos = node.left.end_col_offset + gap.index(sym)
                yield (ln, pos, pos + 1, "-" if sym == "+" else "+", f"binary {sym} flipped")
        if isinstance(node, ast.UnaryOp) and isinstance(node.op, ast.USub) and node.lineno == node.end_lineno \
                and not isinstance(node.operand, ast.Constant):
            yield (node.lineno, node.col_offset, node.col_offset + 1, "", "unary minus dropped")
        if isinstance(node, ast.Constant) and isinstance(node.value, float) and node.value in (0.5, 2.0) and node.lineno == node.end_lineno:
            nv = "1.0"
            yield (node.lineno, node.col_offset, node.end_col_offset, nv, f"constant {node.value} -> {nv}")
        if isinstance(node, ast.Subscript) and node.lineno == node.end_lineno:
            sl = node.slice
            if isinstance(sl, ast.Tuple) and len(sl.elts) == 2:
                a, b = sl.elts
                is_none = lambda e: isinstance(e, ast.Constant) and e.value is None
                is_full = lambda e: isinstance(e, ast.Slice) and e.lower is None and e.upper is None and e.step is None
                if is_full(a) and is_none(b):
                    yield (sl.lineno, sl.col_offset, sl.end_col_offset, "None", "[:, None] -> [None]")
            elif isinstance(sl, ast.Constant) and sl.value is None:
                yield (sl.lineno, sl.col_offset, sl.end_col_offset, ":, None", "[None] -> [:, None]")
        # ---- second operator family (attribute / dimension confusions, dropped terms, comparison and slice edges)
        if isinstance(node, ast.Attribute) and node.lineno == node.end_lineno and isinstance(node.ctx, ast.Load):
            swaps = {"Sigma": "Lambda", "Lambda": "Sigma", "ln_det_Sigma": "ln_det_Lambda", "ln_det_Lambda": "ln_det_Sigma",
                     "Dx": "Dy", "Dy": "Dx", "mu": "nu", "nu": "mu"}
            if node.attr in swaps:
                start = node.end_col_offset - len(node.attr)
                yield (node.lineno, start, node.end_col_offset, swaps[node.attr], f"attribute .{node.attr} -> .{swaps[node.attr]}")
            if node.attr == "R" and isinstance(node.value, ast.Name) and node.value.id in ("self", "measure", "p_x"):
                other = {"self": "measure", "measure": "self", "p_x": "self"}[node.value.id]
                yield (node.lineno, node.col_offset, node.end_col_offset, f"{other}.R", f"owner {node.value.id}.R -> {other}.R")
        if isinstance(node, ast.BinOp) and isinstance(node.op, (ast.Add, ast.Sub)) and node.lineno == node.end_lineno:
            # drop the right-hand term
            yield (node.lineno, node.left.end_col_offset, node.right.end_col_offset, "", "term dropped")
        if isinstance(node, ast.BinOp) and isinstance(node.op, ast.Mult) and node.lineno == node.end_lineno:
            for side in (node.left, node.right):
                if isinstance(side, ast.Constant) and isinstance(side.value, (int, float)) and side.value in (2, 2.0, 0.5, -0.5):
                    if side is node.left:
                        yield (node.lineno, node.left.col_offset, node.right.col_offset, "", f"factor {side.value} dropped")
        if isinstance(node, ast.BinOp) and isinstance(node.op, ast.Pow) and isinstance(node.right, ast.Constant) and node.right.value == 2 \
                and node.lineno == node.end_lineno:
            yield (node.right.lineno, node.right.col_offset, node.right.end_col_offset, "1", "power 2 -> 1")
        if isinstance(node, ast.Compare) and len(node.ops) == 1 and node.lineno == node.end_lineno:
            gap = src_lines[node.lineno - 1][node.left.end_col_offset:node.comparators[0].col_offset]
            rep = {">": ">=", ">=": ">", "<": "<=", "<=": "<", "==": "!=", "!=": "=="}
            g = gap.strip()
            if g in rep:
                pos = node.left.end_col_offset + gap.index(g)
                yield (node.lineno, pos, pos + len(g), rep[g], f"comparison {g} -> {rep[g]}")
        if isinstance(node, ast.Compare) and len(node.ops) == 1 and node.lineno == node.end_lineno \
                and isinstance(node.ops[0], (ast.In, ast.NotIn, ast.Is, ast.IsNot)):
            gap = src_lines[node.lineno - 1][node.left.end_col_offset:node.comparators[0].col_offset]
            rep = {"in": "not in", "not in": "in", "is": "is not", "is not": "is"}
            g = " ".join(gap.split())
            if g in rep:
                yield (node.lineno, node.left.end_col_offset, node.comparators[0].col_offset, " " + rep[g] + " ", f"comparison {g} -> {rep[g]}")
        if isinstance(node, ast.Constant) and isinstance(node.value, bool) and node.lineno == node.end_lineno:
            yield (node.lineno, node.col_offset, node.end_col_offset, str(not node.value), f"constant {node.value} -> {not node.value}")
        if isinstance(node, ast.Slice) and getattr(node, "lineno", None) and node.lineno == node.end_lineno:
            if node.lower is not None and node.upper is None and node.step is None:
                lo = src_lines[node.lineno - 1][node.lower.col_offset:node.lower.end_col_offset]
                yield (node.lineno, node.col_offset, node.end_col_offset, ":" + lo, f"slice {lo}: -> :{lo}")
            elif node.lower is None and node.upper is not None and node.step is None:
                up = src_lines[node.lineno - 1][node.upper.col_offset:node.upper.end_col_offset]
                yield (node.lineno, node.col_offset, node.end_col_offset, up + ":", f"slice :{up} -> {up}:")
    # ---- third family: statement deletion (single-line assignments, augmented assignments, expression statements)
    if os.environ.get("GTV_MUT_SDL") or os.environ.get("GTV_MUT_ALL"):
        for node in ast.walk(fn_node):
            if isinstance(node, (ast.Assign, ast.AugAssign, ast.Expr)) and node.lineno == node.end_lineno:
                if isinstance(node, ast.Expr) and isinstance(node.value, ast.Constant):
                    continue        # docstring
                text = src_lines[node.lineno - 1][node.col_offset:node.end_col_offset]
                yield (node.lineno, node.col_offset, node.end_col_offset, "pass", f"deleted {text.strip()[:60]}")
    _ = doc


def gen(per_function=4, seed=1, exclude=None, out='mutants.json'):
    rnd = random.Random(seed)
    muts = []
    for rel in FILES:
        path = os.path.join(REPO, "gaussian_toolbox", rel)
        src = open(path).read()
        lines = src.splitlines(keepends=True)
        tree = ast.parse(src)
        fns = _functions(tree)
        inner = {}
        for q, node in fns:
            inner[q] = node
        for q, node in fns:
            if q.endswith("__str__"):
                continue
            nested = [n for qq, n in fns if qq.startswith(q + ".")]
            eds = []
            for e in _edits_for(node, lines):
                if any(n.lineno <= e[0] <= n.end_lineno for n in nested):
                    continue
                eds.append(e)
            # de-duplicate and sample
            uniq = {}
            for e in eds:
                if os.environ.get("GTV_MUT_SDL") and not e[4].startswith("deleted"):
                    continue
                if exclude and (rel, e[0], e[1], e[2], e[3]) in exclude:
                    continue
                uniq[(e[0], e[1], e[2], e[3])] = e
            eds = sorted(uniq.values())
            rnd.shuffle(eds)
            # prefer variety: at most 2 of the same description class
            chosen, kinds = [], {}
            for e in eds:
                kind = e[4].split()[0]
                if kinds.get(kind, 0) >= (10 ** 6 if kind == "deleted" else 2):
                    continue
                kinds[kind] = kinds.get(kind, 0) + 1
                chosen.append(e)
                if len(chosen) >= per_function:
                    break
            for e in chosen:
                muts.append(dict(file=rel, function=q, line=e[0], col=e[1], end_col=e[2], new=e[3], what=e[4],
                                 old=lines[e[0] - 1][e[1]:e[2]]))
    os.makedirs(SCR, exist_ok=True)
    for k, m in enumerate(muts):
        m["id"] = k
    with open(os.path.join(SCR, out), "w") as fh:
        json.dump(muts, fh, indent=0)
    print(len(muts), "mutants")


def _run_one(m, line_map, max_obs):
    k = m["id"]
    rel = os.path.join("gaussian_toolbox", m["file"])
    obs = line_map.get(rel, {}).get(str(m["line"]), [])
    res = dict(id=k, n_obligations=len(obs))
    if not obs:
        res["status"] = "not-executed"
        return res
    root = os.path.join(SCR, str(k))
    shutil.rmtree(root, ignore_errors=True)
    shutil.copytree(os.path.join(REPO, "gaussian_toolbox"), os.path.join(root, "gaussian_toolbox"),
                    ignore=shutil.ignore_patterns("__pycache__"))
    path = os.path.join(root, rel)
    lines = open(path).read().splitlines(keepends=True)
    ln = lines[m["line"] - 1]
    assert ln[m["col"]:m["end_col"]] == m["old"], (ln, m)
    lines[m["line"] - 1] = ln[:m["col"]] + m["new"] + ln[m["end_col"]:]
    open(path, "w").write("".join(lines))
    try:
        compile("".join(lines), path, "exec")
    except SyntaxError:
        res["status"] = "invalid"
        shutil.rmtree(root, ignore_errors=True)
        return res
    rnd = random.Random(k)
    if len(obs) > max_obs:
        obs = rnd.sample(obs, max_obs)
    by_prop = {}
    for o in obs:
        by_prop.setdefault(o.split("/")[0], []).append(o)
    killed_by = None
    codes = {}
    for prop, ids in sorted(by_prop.items()):
        idf = os.path.join(root, f"ids_{prop}.txt")
        open(idf, "w").write("\n".join(ids))
        env = dict(os.environ, GTV_REPO=root, PYTHONDONTWRITEBYTECODE="1")
        p = subprocess.run([os.path.join(VERIF, "check"), prop, "--ids-file", idf, "--jobs", "4"], cwd=VERIF, env=env,
                           capture_output=True, text=True, timeout=3000)
        codes[prop] = p.returncode
        if p.returncode in (1, 3):
            first = [l for l in p.stdout.splitlines() if l.startswith(("VIOLATION", "CHECKER-ERROR"))]
            killed_by = (prop, first[0][:300] if first else "")
            break
    res["codes"] = codes
    res["status"] = "killed" if killed_by else "survived"
    res["killed_by"] = killed_by
    shutil.rmtree(root, ignore_errors=True)
    return res


def run(parallel=4, max_obs=24, start=0, stop=None, name="mutants.json", results="results.jsonl"):
    muts = json.load(open(os.path.join(SCR, name)))
    line_map = json.load(open(os.environ.get("GTV_LINE_MAP", "/tmp/line_map.json")))
    out_path = os.path.join(SCR, results)
    done = set()
    if os.path.exists(out_path):
        for l in open(out_path):
            done.add(json.loads(l)["id"])
    todo = [m for m in muts[start:stop] if m["id"] not in done]
    with ThreadPoolExecutor(parallel) as ex, open(out_path, "a") as fh:
        for res in ex.map(lambda m: _safe(m, line_map, max_obs), todo):
            fh.write(json.dumps(res) + "\n")
            fh.flush()
            print(res["id"], res["status"], flush=True)


def _safe(m, line_map, max_obs):
    try:
        return _run_one(m, line_map, max_obs)
    except Exception as ex:  # noqa
        return dict(id=m["id"], status="error", error=f"{type(ex).__name__}: {ex}"[:300])


def report(name="mutants.json", results="results.jsonl"):
    muts = {m["id"]: m for m in json.load(open(os.path.join(SCR, name)))}
    res = [json.loads(l) for l in open(os.path.join(SCR, results))]
    cnt = {}
    for r in res:
        cnt[r["status"]] = cnt.get(r["status"], 0) + 1
    print(cnt)
    for r in res:
        if r["status"] in ("survived", "not-executed", "error"):
            m = muts[r["id"]]
            print(f"{r['status']:12s} #{m['id']} {m['file']}:{m['line']} {m['function']}: {m['what']}   (obligations executing the line: {r.get('n_obligations')}) {r.get('error', '')}")


if __name__ == "__main__":
    cmd = sys.argv[1]
    if cmd == "gen":
        gen(int(sys.argv[2]) if len(sys.argv) > 2 else 4)
    elif cmd == "gen2":
        # second round: other seed, more mutants per function, the mutants of round 1 excluded
        prev = set()
        p1 = os.path.join(SCR, "mutants.json")
        if os.path.exists(p1):
            for m in json.load(open(p1)):
                prev.add((m["file"], m["line"], m["col"], m["end_col"], m["new"]))
        gen(int(sys.argv[2]) if len(sys.argv) > 2 else 6, seed=2, exclude=prev, out="mutants2.json")
    elif cmd == "run":
        run(parallel=int(sys.argv[2]) if len(sys.argv) > 2 else 4, max_obs=int(sys.argv[3]) if len(sys.argv) > 3 else 24)
    elif cmd == "gen4":
        os.environ["GTV_MUT_SDL"] = "1"
        prev = set()
        for nm in ("mutants.json", "mutants2.json"):
            p1 = os.path.join(SCR, nm)
            if os.path.exists(p1):
                for m in json.load(open(p1)):
                    prev.add((m["file"], m["line"], m["col"], m["end_col"], m["new"]))
        gen(int(sys.argv[2]) if len(sys.argv) > 2 else 6, seed=4, exclude=prev, out="mutants4.json")
    elif cmd == "gen5":
        # final round: all operator families mixed (statement deletion included), new seed, earlier mutants excluded
        os.environ["GTV_MUT_ALL"] = "1"
        prev = set()
        for nm in ("mutants.json", "mutants2.json", "mutants4.json"):
            p1 = os.path.join(SCR, nm)
            if os.path.exists(p1):
                for m in json.load(open(p1)):
                    prev.add((m["file"], m["line"], m["col"], m["end_col"], m["new"]))
        gen(int(sys.argv[2]) if len(sys.argv) > 2 else 3, seed=5, exclude=prev, out="mutants5.json")
    elif cmd == "run5":
        run(parallel=int(sys.argv[2]) if len(sys.argv) > 2 else 4, max_obs=int(sys.argv[3]) if len(sys.argv) > 3 else 24,
            name="mutants5.json", results="results5.jsonl")
    elif cmd == "report5":
        report("mutants5.json", "results5.jsonl")
    elif cmd == "run4":
        run(parallel=int(sys.argv[2]) if len(sys.argv) > 2 else 4, max_obs=int(sys.argv[3]) if len(sys.argv) > 3 else 24,
            name="mutants4.json", results="results4.jsonl")
    elif cmd == "report4":
        report("mutants4.json", "results4.jsonl")
    elif cmd == "run2":
        run(parallel=int(sys.argv[2]) if len(sys.argv) > 2 else 4, max_obs=int(sys.argv[3]) if len(sys.argv) > 3 else 24,
            name="mutants2.json", results="results2.jsonl")
    elif cmd == "report2":
        report("mutants2.json", "results2.jsonl")
    else:
        report()
